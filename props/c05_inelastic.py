"""C05 - inelastic energy transfer conserves energy; NaN exactly for unphysical times, never inf.

Shape G.  One case = one (geometry, energy unit, L1 unit, L2 unit, tof unit, tof dtype,
energy dtype) combination; inside, the full grid Ei x Ef x L1 x L2 of flights is built
from the 50-digit reference (ref/inelastic.py on top of ref/hp.py), the arrival time is
rounded to the tof dtype and handed to the real kernels

    conversion.tof.energy_transfer_direct_from_tof      (given Ei)
    conversion.tof.energy_transfer_indirect_from_tof    (given Ef)

in three layouts (flat 1-d; scalar fixed leg with per-pixel other leg and dense tof; the
same through ``convert(..., 'energy_transfer')``).  The NaN boundary of every
(E_fixed, L_fixed) pair is *located* by bisection over the floats of the tof dtype on
the real kernel and its neighbourhood is scanned for infinities.

Tolerances are derived per element from the conditioning of the inputs actually passed
(DESIGN 3.3): the flight time t0 of the fixed leg is computed by the kernel with a
relative error rho0 (a few roundoffs plus half the error of scipp's unit-conversion
factor, which is measured per unit combination against the exact rational factor);
t - t0 then carries rho0*t0/(t-t0), and the energy of the other leg twice that.
"""
from __future__ import annotations

import numpy as np
import scipp as sc
import scipp.constants  # noqa: F401

import scippneutron as scn
from scippneutron.conversion import tof as K
from scippneutron.conversion.graph import tof as G

from mc import modstate
from ref import hp
from ref import inelastic as ie

ID = 'C05'
LEVEL = 'model_checking'
RULE = (
    'full Cartesian grid: geometry {direct, indirect} x energy unit x L1 unit x L2 unit x tof unit '
    'x tof dtype x energy dtype (one case each); inside a case every flight Ei x Ef x L1 x L2 of the '
    'magnitude alphabet (arrival time rounded to the tof dtype), a boundary family around t0 of every '
    '(E_fixed, L_fixed) pair (t0(1-1e-3), just outside the rounding band on both sides, t0(1+1e-3), '
    '0, -0.0, -t0, tiny t), the bisected float where NaN turns finite with 3 neighbours on each side, '
    'and two broadcast layouts (scalar / per-pixel fixed energy) directly and through convert(). '
    'A judged element is non-trivial when it is a finite transfer compared with the reference or a '
    'NaN demanded by the reference; distinct = distinct (case, element) keys'
)
ASSUMPTIONS = [
    'h, m_n, e as scipp exposes them, promoted exactly to 50 digits (ref/hp.py)',
    "scipp's unit-conversion factors are taken as they are: their relative error against the exact "
    'rational factor is measured per unit combination (up to 1.2e-13, e.g. kg -> meV*(s/cm)^2) and '
    'enters the tolerance through the conditioning formula; it is not attributed to scippneutron',
    'lengths are float64 (dtype contract of the other operands is C07)',
    'inside the rounding band around t0 (|t-t0| <= 2*(rho0+4u)*t0) NaN and finite are both accepted, inf never',
]
REQUIRED_CLASSES = [
    'finite_judged', 'conservation_judged', 'nan_unphysical', 'band_dontcare', 'boundary_located',
    'energy_gain', 'energy_loss', 'elastic', 'nan_at_zero', 'nan_negative_time', 'convert_bitwise',
    'illconditioned_skipped', 'result_float32', 'result_float64', 'per_pixel_energy',
]
BOUND = {
    'quick': '2 geometries x 4 energy units x 3x3 length units (mm, m, km) x 4 tof units x 2x2 dtypes = 1152 cases; '
             'Ei, Ef in {1e-3, 0.5, 25, 300, 1e4} meV, L1, L2 in {0.1, 1.3, 30, 1e3} m: 400 flights + 20 boundaries per case',
    'thorough': 'length units {angstrom, um, mm, cm, m, km} (36 pairs) = 4608 cases; Ei, Ef in 9 values 1e-3..1e4 meV, '
                'L1, L2 in 7 values 0.1..1e3 m: 3969 flights + 63 boundaries per case',
}

E_UNITS = ('meV', 'ueV', 'eV', 'J')
T_UNITS = ('us', 'ns', 'ms', 's')
L_UNITS = {'quick': ('m', 'mm', 'km'), 'thorough': ('m', 'mm', 'km', 'cm', 'um', 'angstrom')}
DTYPES = ('float64', 'float32')
E_MEV = {
    'quick': (25.0, 1e-3, 0.5, 300.0, 1e4),
    'thorough': (25.0, 1e-3, 0.02, 0.5, 5.0, 81.8042, 300.0, 2e3, 1e4),
}
L_M = {'quick': (1.3, 0.1, 30.0, 1e3), 'thorough': (1.3, 0.1, 0.75, 8.0, 30.0, 160.0, 1e3)}

U64 = 2.0**-53
U32 = 2.0**-24
NP = {'float64': np.float64, 'float32': np.float32}
SITE = {
    ie.DIRECT: 'conversion.tof.energy_transfer_direct_from_tof',
    ie.INDIRECT: 'conversion.tof.energy_transfer_indirect_from_tof',
}
SITE_CONVERT = 'convert[energy_transfer]'


def cases(tier):
    out = []
    for mode in (ie.DIRECT, ie.INDIRECT):
        for tdt in DTYPES:
            for edt in DTYPES:
                for eu in E_UNITS:
                    for tu in T_UNITS:
                        for l1u in L_UNITS[tier]:
                            for l2u in L_UNITS[tier]:
                                out.append({'mode': mode, 'e_unit': eu, 'tof_unit': tu, 'L1_unit': l1u, 'L2_unit': l2u,
                                            'tof_dtype': tdt, 'e_dtype': edt, 'tier': tier})
    if tier == 'quick':
        # the corner where unit-converted constants are smallest (energy in J, lengths in angstrom): single-precision
        # underflow of a constant shows up only here; the thorough tier has angstrom in its full unit product
        for mode in (ie.DIRECT, ie.INDIRECT):
            for tdt in DTYPES:
                for edt in DTYPES:
                    for tu in T_UNITS:
                        for l1u, l2u in (('angstrom', 'angstrom'), ('angstrom', 'm'), ('m', 'angstrom')):
                            out.append({'mode': mode, 'e_unit': 'J', 'tof_unit': tu, 'L1_unit': l1u, 'L2_unit': l2u,
                                        'tof_dtype': tdt, 'e_dtype': edt, 'tier': tier})
    return out


# ---------------------------------------------------------------------------------------
# helpers


def _cast(x: float, dtype: str) -> float:
    """The float the implementation receives when ``x`` is stored with ``dtype``."""
    return float(NP[dtype](x))


def _var(values, dim, unit, dtype):
    if dim is None:
        return sc.scalar(NP[dtype](values), unit=unit, dtype=dtype)
    return sc.array(dims=[dim], values=np.asarray(values, dtype=NP[dtype]), unit=unit, dtype=dtype)


def _call(mode, tof, L1, L2, E):
    if mode == ie.DIRECT:
        return K.energy_transfer_direct_from_tof(tof=tof, L1=L1, L2=L2, incident_energy=E)
    return K.energy_transfer_indirect_from_tof(tof=tof, L1=L1, L2=L2, final_energy=E)


def _factor_error(e_unit, t_unit, l_unit) -> float:
    """Relative error of scipp's factor kg -> e_unit*(t_unit/l_unit)^2 against the exact one."""
    got = sc.to_unit(sc.scalar(1.0, unit='kg'), sc.Unit(e_unit) * (sc.Unit(t_unit) / sc.Unit(l_unit)) ** 2).value
    want = (hp.F(hp.LENGTH[l_unit]) / hp.F(hp.TIME[t_unit])) ** 2 / hp.energy_factor(e_unit)
    return hp.rel_err(got, want) + U64


def _float_steps(x: float, dtype: str, k: int) -> float:
    """x moved by k floats of ``dtype`` (x > 0 and the result stays > 0)."""
    if dtype == 'float64':
        return float((np.array([x], dtype=np.float64).view(np.int64) + k).view(np.float64)[0])
    return float((np.array([x], dtype=np.float32).view(np.int32) + k).view(np.float32)[0])


def _bit_equal(a: np.ndarray, b: np.ndarray) -> bool:
    """Same dtype, NaN in the same places, every other element bit for bit."""
    if a.dtype != b.dtype or a.shape != b.shape:
        return False
    na, nb = np.isnan(a), np.isnan(b)
    if not np.array_equal(na, nb):
        return False
    a, b = np.ascontiguousarray(np.where(na, 0, a)), np.ascontiguousarray(np.where(nb, 0, b))
    return np.array_equal(a.view(np.uint8), b.view(np.uint8))


class Ctx:
    """Everything that is fixed within one case, with caches of reference quantities."""

    def __init__(self, case, rec, kind_prefix=''):
        self.case, self.rec = case, rec
        self.kp = kind_prefix  # violation kinds of the call-history family are reported as 'history_<kind>'
        self.mode = case['mode']
        self.eu, self.tu = case['e_unit'], case['tof_unit']
        self.l1u, self.l2u = case['L1_unit'], case['L2_unit']
        self.tdt, self.edt = case['tof_dtype'], case['e_dtype']
        self.site = SITE[self.mode]
        self.efac = hp.energy_factor(self.eu)
        lfix, loth = (self.l1u, self.l2u) if self.mode == ie.DIRECT else (self.l2u, self.l1u)
        u_e = U32 if self.edt == 'float32' else U64
        self.u_all = U32 if (self.edt == 'float32' and self.tdt == 'float32') else U64
        self.u_t = U32 if self.tdt == 'float32' else U64
        # relative error bound of any float evaluation of t0 = L*sqrt(c/E): the factor error halves under
        # the root; division, cast to the energy dtype, root and product with the length round once each
        self.rho0 = _factor_error(self.eu, self.tu, lfix) / 2 + 4 * u_e
        self.rho_scale = _factor_error(self.eu, self.tu, loth)
        # |t - t0| <= band*t0: NaN or finite both fine (the first float above the kernel's t0 lies here)
        self.band = 2 * (self.rho0 + 4 * self.u_t)
        self._leg = {}
        self._judged = {}
        self.max_ratio = 0.0  # largest error/tolerance seen (diagnostic only)
        self.max_dev = 0.0  # largest boundary deviation / band seen (diagnostic only)

    # reference quantities on received floats ------------------------------------------
    def leg_time(self, L, lunit, E):
        key = (L, lunit, E)
        v = self._leg.get(key)
        if v is None:
            v = self._leg[key] = ie.flight_time(hp.length_si(L, lunit), hp.energy_si(E, self.eu))
        return v

    def t0(self, L1, L2, E):
        return self.leg_time(L1, self.l1u, E) if self.mode == ie.DIRECT else self.leg_time(L2, self.l2u, E)

    def tof_float(self, t_si):
        return _cast(float(t_si / hp.F(hp.TIME[self.tu])), self.tdt)

    # the oracle for one element ---------------------------------------------------------
    def judge(self, site, t, L1, L2, E, got, *, E_other_true=None, where=''):
        """Judge one result element.  (t, L1, L2, E) are the floats the kernel received."""
        rec = self.rec
        rec.evals += 1
        rec.observe(got)
        key = (t, L1, L2, E)
        sub = {'tof': t, 'L1': L1, 'L2': L2, 'E_fixed': E, 'got': got, 'where': where}
        if np.isinf(got):
            rec.viol(site, self.kp + 'inf', f'{got} for finite inputs tof={t!r} {self.tu}, L1={L1!r} {self.l1u}, L2={L2!r} {self.l2u}, E={E!r} {self.eu}', **sub)
            return
        ref = self._judged.get(key)
        if ref is None:
            t0 = self.t0(L1, L2, E)
            ts = hp.time_si(t, self.tu)
            rel = (ts - t0) / t0
            if rel < -self.band:
                ref = ('nan',)
            elif rel <= self.band:
                ref = ('band',)
            else:
                want = ie.transfer(self.mode, ts, hp.length_si(L1, self.l1u), hp.length_si(L2, self.l2u), hp.energy_si(E, self.eu))
                Ef = hp.energy_si(E, self.eu)
                Eo = Ef - want if self.mode == ie.DIRECT else want + Ef
                r = self.rho0 / rel + 2 * self.u_all
                if r >= 0.25:
                    ref = ('illcond',)
                else:
                    e = (1 + self.rho_scale + 8 * self.u_all) / (1 - r) ** 2 - 1
                    tol = 2 * (Eo * e + self.u_all * max(Eo, Ef))
                    ref = ('finite', want / self.efac, tol / self.efac, float(rel))
            self._judged[key] = ref
            rec.states += 1
            fresh = True
        else:
            fresh = False
        kind = ref[0]
        if kind == 'nan':
            rec.validated += 1
            if not np.isnan(got):
                rec.viol(site, self.kp + 'not_nan_unphysical', f'tof={t!r} {self.tu} is before t0 of the fixed leg (L1={L1!r} {self.l1u}, L2={L2!r} {self.l2u}, E={E!r} {self.eu}) but result is {got!r}', **sub)
            else:
                rec.cls('nan_unphysical')
                rec.nontrivial += fresh
                if t == 0:
                    rec.cls('nan_at_zero')
                elif t < 0:
                    rec.cls('nan_negative_time')
            return
        if kind == 'band':
            rec.cls('band_dontcare')
            return
        if np.isnan(got):
            rec.validated += 1
            rec.viol(site, self.kp + 'nan_physical', f'tof={t!r} {self.tu} is after t0 of the fixed leg (L1={L1!r} {self.l1u}, L2={L2!r} {self.l2u}, E={E!r} {self.eu}) but result is NaN', **sub)
            return
        if kind == 'illcond':
            rec.cls('illconditioned_skipped')
            return
        _, want, tol, rel = ref
        rec.validated += 1
        rec.nontrivial += fresh
        err = abs(hp.mpf(got) - want)
        self.max_ratio = max(self.max_ratio, float(err / tol))
        if err > tol:
            rec.viol(site, self.kp + 'rel_error', f'got {got!r} {self.eu}, reference {float(want)!r}: error {float(err):.3e} > tolerance {float(tol):.3e} ((t-t0)/t0={rel:.3e})', **sub)
        else:
            rec.cls('finite_judged')
        if E_other_true is not None:
            # the statement itself: Ei - Ef of the flight that produced this arrival time.  Rounding of the
            # arrival time to the tof dtype moves t - t0 by at most u_t*t.
            true = (hp.F(E) - hp.F(E_other_true)) if self.mode == ie.DIRECT else (hp.F(E_other_true) - hp.F(E))
            Eo = hp.F(E_other_true)
            rt = self.u_t * (1 + 1 / rel)
            if rt < 0.25:
                tol2 = tol + 2 * Eo * (1 / (1 - rt) ** 2 - 1)
                if abs(hp.mpf(got) - true) > tol2:
                    rec.viol(site, self.kp + 'conservation', f'flight Ei/Ef gives {float(true)!r} {self.eu}, got {got!r} (tolerance {float(tol2):.3e})', **sub)
                else:
                    rec.cls('conservation_judged')
                    rec.cls('elastic' if true == 0 else ('energy_loss' if true > 0 else 'energy_gain'))

    def check_meta(self, site, res, what):
        if res.unit != sc.Unit(self.eu):
            self.rec.viol(site, self.kp + 'wrong_unit', f'{what}: unit {res.unit}, supplied energy has {self.eu}')
        self.rec.cls('result_' + str(res.dtype))


# ---------------------------------------------------------------------------------------
# layouts


def _grid(ctx: Ctx, tier):
    """Received floats of the magnitude alphabet."""
    Es = [_cast(float(hp.F(e) * hp.MEV / ctx.efac), ctx.edt) for e in E_MEV[tier]]
    L1s = [float(hp.F(x) / hp.F(hp.LENGTH[ctx.l1u])) for x in L_M[tier]]
    L2s = [float(hp.F(x) / hp.F(hp.LENGTH[ctx.l2u])) for x in L_M[tier]]
    return Es, L1s, L2s


def _flat(ctx: Ctx, pts, label):
    """pts: list of (t, L1, L2, E_fixed, E_other_true or None).  One kernel call, all 1-d."""
    if not pts:
        return []
    t = _var([p[0] for p in pts], 'p', ctx.tu, ctx.tdt)
    L1 = _var([p[1] for p in pts], 'p', ctx.l1u, 'float64')
    L2 = _var([p[2] for p in pts], 'p', ctx.l2u, 'float64')
    E = _var([p[3] for p in pts], 'p', ctx.eu, ctx.edt)
    res = _call(ctx.mode, t, L1, L2, E)
    ctx.rec.transitions += 1
    ctx.check_meta(ctx.site, res, label)
    if res.dims != ('p',) or res.shape != (len(pts),):
        ctx.rec.viol(ctx.site, 'shape', f'{label}: result sizes {dict(res.sizes)}')
        return []
    vals = [float(x) for x in res.values]
    for p, g in zip(pts, vals, strict=True):
        ctx.judge(ctx.site, p[0], p[1], p[2], p[3], g, E_other_true=p[4], where=label)
    return vals


def _arrivals(ctx: Ctx, Es, L1s, L2s):
    pts = []
    for E_fix in Es:
        for E_oth in Es:
            Ei, Ef = (E_fix, E_oth) if ctx.mode == ie.DIRECT else (E_oth, E_fix)
            for L1 in L1s:
                for L2 in L2s:
                    t = ctx.tof_float(ctx.leg_time(L1, ctx.l1u, Ei) + ctx.leg_time(L2, ctx.l2u, Ef))
                    pts.append((t, L1, L2, E_fix, E_oth))
    return pts


def _fixed_pairs(ctx: Ctx, Es, L1s, L2s):
    """(E_fixed, L_fixed) pairs with the list of other-leg lengths."""
    if ctx.mode == ie.DIRECT:
        return [(E, L1, None) for E in Es for L1 in L1s], L2s
    return [(E, None, L2) for E in Es for L2 in L2s], L1s


def _boundary_family(ctx: Ctx, Es, L1s, L2s):
    pairs, others = _fixed_pairs(ctx, Es, L1s, L2s)
    pts = []
    out_of_band = 4 * ctx.band
    for E, L1, L2 in pairs:
        for Lo in (min(others), max(others)):  # shortest and longest other leg
            a, b = (L1, Lo) if ctx.mode == ie.DIRECT else (Lo, L2)
            t0 = ctx.t0(a, b, E)
            for f in (-1e-3, -out_of_band, out_of_band, 1e-3):
                pts.append((ctx.tof_float(t0 * (1 + hp.F(f))), a, b, E, None))
            t0f = ctx.tof_float(t0)
            pts.append((t0f, a, b, E, None))
            pts.append((0.0, a, b, E, None))
            pts.append((-0.0, a, b, E, None))
            pts.append((-t0f, a, b, E, None))
            pts.append((ctx.tof_float(t0 * hp.F(1e-6)), a, b, E, None))
    return pts


def _locate_boundaries(ctx: Ctx, Es, L1s, L2s):
    """Bisect, on the real kernel, the first float of the tof dtype whose result is not NaN."""
    rec = ctx.rec
    pairs, others = _fixed_pairs(ctx, Es, L1s, L2s)
    Lo = max(others)  # the longest other leg makes the largest energies next to the boundary
    geo = [((L1, Lo) if ctx.mode == ie.DIRECT else (Lo, L2)) + (E,) for E, L1, L2 in pairs]
    t0s = [ctx.t0(a, b, E) for a, b, E in geo]
    lo = np.array([ctx.tof_float(t * (1 - hp.F(4 * ctx.band))) for t in t0s], dtype=NP[ctx.tdt])
    hi = np.array([ctx.tof_float(t * (1 + hp.F(4 * ctx.band))) for t in t0s], dtype=NP[ctx.tdt])
    ity = np.int64 if ctx.tdt == 'float64' else np.int32
    L1v = _var([g[0] for g in geo], 'p', ctx.l1u, 'float64')
    L2v = _var([g[1] for g in geo], 'p', ctx.l2u, 'float64')
    Ev = _var([g[2] for g in geo], 'p', ctx.eu, ctx.edt)

    def is_nan(tv):
        rec.transitions += 1
        return np.isnan(_call(ctx.mode, sc.array(dims=['p'], values=tv, unit=ctx.tu, dtype=ctx.tdt), L1v, L2v, Ev).values)

    ok = is_nan(lo) & ~is_nan(hi)  # otherwise the family check has already reported it
    li, hi_i = lo.view(ity).astype(np.int64), hi.view(ity).astype(np.int64)
    for _ in range(70):
        if not np.any((hi_i - li > 1) & ok):
            break
        mid = li + (hi_i - li) // 2
        nan = is_nan(mid.astype(ity).view(NP[ctx.tdt]))
        move = (hi_i - li > 1) & ok
        li = np.where(move & nan, mid, li)
        hi_i = np.where(move & ~nan, mid, hi_i)
    first_finite = hi_i.astype(ity).view(NP[ctx.tdt])
    pts = []
    for k, (a, b, E) in enumerate(geo):
        if not ok[k]:
            continue
        ts = float(first_finite[k])
        dev = abs(hp.time_si(ts, ctx.tu) - t0s[k]) / t0s[k]
        rec.validated += 1
        rec.observe(ts)
        ctx.max_dev = max(ctx.max_dev, float(dev / ctx.band))
        if dev > ctx.band:
            rec.viol(ctx.site, 'boundary_misplaced', f'NaN turns finite at tof={ts!r} {ctx.tu}, {float(dev):.3e} (relative) away from the flight time of the fixed leg {float(t0s[k] / hp.F(hp.TIME[ctx.tu]))!r}; rounding allows {ctx.band:.3e}', tof=ts, L1=a, L2=b, E_fixed=E)
        else:
            rec.cls('boundary_located')
            rec.nontrivial += 1
        for d in range(-3, 4):
            pts.append((_float_steps(ts, ctx.tdt, d), a, b, E, None))
    vals = _flat(ctx, pts, 'boundary_scan')
    # NaN below, not NaN from the located float on (monotone)
    for j in range(0, len(vals), 7):
        flags = [np.isnan(v) for v in vals[j:j + 7]]
        if flags != [True, True, True, False, False, False, False]:
            rec.viol(ctx.site, 'boundary_not_monotone', f'NaN pattern {flags} over 7 consecutive floats around tof={pts[j + 3][0]!r} {ctx.tu}', tof=pts[j + 3][0], L1=pts[j][1], L2=pts[j][2], E_fixed=pts[j][3])


def _customised_node(tof):
    return tof * 0.0


def _broadcast_and_convert(ctx: Ctx, Es, L1s, L2s, per_pixel_energy: bool):
    """Scalar fixed leg, per-pixel other leg, dense tof; directly and through convert()."""
    rec = ctx.rec
    _, others = _fixed_pairs(ctx, Es, L1s, L2s)
    nspec = len(others)
    E0 = Es[0]
    Lf = (L1s if ctx.mode == ie.DIRECT else L2s)[0]
    Espec = [Es[k % len(Es)] for k in range(nspec)] if per_pixel_energy else [E0] * nspec
    # tof axis: arrival times of pixel 0 for every other-leg energy + boundary family of pixel 0, unsorted on purpose
    tofs = []
    a, b = (Lf, others[0]) if ctx.mode == ie.DIRECT else (others[0], Lf)
    for Eo in Es:
        Ei, Ef = (Espec[0], Eo) if ctx.mode == ie.DIRECT else (Eo, Espec[0])
        tofs.append(ctx.tof_float(ctx.leg_time(a, ctx.l1u, Ei) + ctx.leg_time(b, ctx.l2u, Ef)))
    t0 = ctx.t0(a, b, Espec[0])
    tofs += [ctx.tof_float(t0 * (1 + hp.F(f))) for f in (-1e-3, 1e-3)] + [0.0, -tofs[0]]
    tof = _var(tofs, 'tof', ctx.tu, ctx.tdt)
    Lo = _var(others, 'spectrum', ctx.l2u if ctx.mode == ie.DIRECT else ctx.l1u, 'float64')
    Lfv = _var(Lf, None, ctx.l1u if ctx.mode == ie.DIRECT else ctx.l2u, 'float64')
    L1, L2 = (Lfv, Lo) if ctx.mode == ie.DIRECT else (Lo, Lfv)
    E = _var(Espec, 'spectrum', ctx.eu, ctx.edt) if per_pixel_energy else _var(E0, None, ctx.eu, ctx.edt)
    label = 'broadcast_pixel_energy' if per_pixel_energy else 'broadcast'
    res = _call(ctx.mode, tof, L1, L2, E)
    rec.transitions += 1
    ctx.check_meta(ctx.site, res, label)
    if dict(res.sizes) != {'spectrum': nspec, 'tof': len(tofs)}:
        rec.viol(ctx.site, 'shape', f'{label}: result sizes {dict(res.sizes)}, expected spectrum={nspec}, tof={len(tofs)}')
        return
    vals = res.transpose(['spectrum', 'tof']).values
    for s in range(nspec):
        l1, l2 = (Lf, others[s]) if ctx.mode == ie.DIRECT else (others[s], Lf)
        for j, t in enumerate(tofs):
            true = Es[j] if (s == 0 and j < len(Es)) else None
            ctx.judge(ctx.site, t, l1, l2, Espec[s], float(vals[s, j]), E_other_true=true, where=label)
    if per_pixel_energy:
        rec.cls('per_pixel_energy')
    # the same through convert(): bitwise equal to the kernel
    da = sc.DataArray(sc.ones(dims=['spectrum', 'tof'], shape=[nspec, len(tofs)], unit='counts'),
                      coords={'tof': tof, 'L1': L1, 'L2': L2, ('incident_energy' if ctx.mode == ie.DIRECT else 'final_energy'): E})
    # a graph reported for the same arguments belongs to the caller; customising it may not change what convert() does
    reported = scn.deduce_conversion_graph(da, origin='tof', target='energy_transfer', scatter=True)
    for k in list(reported):
        reported[k] = _customised_node
    out = scn.convert(da, origin='tof', target='energy_transfer', scatter=True)
    rec.transitions += 1
    got = out.coords['energy_transfer']
    ctx.check_meta(SITE_CONVERT, got, label)
    if dict(got.sizes) != {'spectrum': nspec, 'energy_transfer': len(tofs)}:
        rec.viol(SITE_CONVERT, 'shape', f'{label}: coord sizes {dict(got.sizes)}')
        return
    gv = got.transpose(['spectrum', 'energy_transfer']).values
    rec.validated += 1
    same = _bit_equal(gv, vals)
    rec.evals += gv.size
    if not same:
        rec.viol(SITE_CONVERT, 'convert_differs', f'{label}: convert gives {gv.tolist()} ({gv.dtype}), kernel {vals.tolist()} ({vals.dtype})')
    else:
        rec.cls('convert_bitwise')


def run_case(case, rec, _ctx_out=None):
    modstate.reset(K)  # what an earlier case of the same worker left in the module must not decide this one
    ctx = Ctx(case, rec)
    if _ctx_out is not None:
        _ctx_out.append(ctx)
    tier = case.get('tier', 'quick')
    Es, L1s, L2s = _grid(ctx, tier)
    _flat(ctx, _arrivals(ctx, Es, L1s, L2s), 'arrival')
    _flat(ctx, _boundary_family(ctx, Es, L1s, L2s), 'boundary_family')
    _locate_boundaries(ctx, Es, L1s, L2s)
    _broadcast_and_convert(ctx, Es, L1s, L2s, per_pixel_energy=False)
    _broadcast_and_convert(ctx, Es, L1s, L2s, per_pixel_energy=True)


# ---------------------------------------------------------------------------------------
# call-history family: the same instrument (0-d fixed-leg length and 0-d fixed energy whose values are exactly
# representable in single precision) converted in one precision and then in another, starting from the module state
# right after import.  The second call is judged at its own bound: what ran before must not cost it accuracy.

HIST_E_MEV = (25.0, 300.0, 0.5)
HIST_L_M = (30.0, 1.3)
HIST_OTHER_M = (1.3, 0.1, 30.0)
HIST_CONFIGS = [(t, e) for t in DTYPES for e in DTYPES]  # (tof dtype, energy dtype)
REQUIRED_CLASSES = [*REQUIRED_CLASSES, 'history_judged', 'history_single_then_double', 'history_double_then_single',
                    'history_other_tof_unit_first', 'history_same_bits_as_fresh', 'history_scalar_other_leg',
                    'history_fresh_judged']
RULE = RULE + (
    ' History cases (geometry x energy unit x tof unit x fixed-leg length unit x other leg {0-d, per pixel}): for 3 energies x 2 '
    'fixed-leg lengths (0-d operands, values exactly representable in float32) every ordered pair predecessor -> judged of the '
    '4 (tof dtype, energy dtype) configurations, predecessor in the same or in another tof unit, from a clean module state; '
    'the judged call (and the fresh call alone) is held to its own tolerance.'
)


def _history_cases(tier):
    out = []
    for mode in (ie.DIRECT, ie.INDIRECT):
        for eu in E_UNITS:
            for tu in T_UNITS:
                for lfu in L_UNITS[tier]:
                    for other in ('per_pixel', 'scalar'):
                        l1u, l2u = (lfu, 'm') if mode == ie.DIRECT else ('m', lfu)
                        out.append({'kind': 'history', 'mode': mode, 'e_unit': eu, 'tof_unit': tu, 'L1_unit': l1u, 'L2_unit': l2u,
                                    'other_leg': other, 'tier': tier})
    return out


def _history_call(ctx: Ctx, E, Lf, others, scalar_other):
    """One kernel call with 0-d fixed-leg length and energy.  Returns (tofs, values[spectrum][tof], others used)."""
    if scalar_other:
        others = others[:1]
    a, b = (Lf, others[0]) if ctx.mode == ie.DIRECT else (others[0], Lf)
    tofs, truths = [], []
    for e_mev in E_MEV['quick']:
        Eo = _cast(float(hp.F(e_mev) * hp.MEV / ctx.efac), ctx.edt)
        Ei, Ef = (E, Eo) if ctx.mode == ie.DIRECT else (Eo, E)
        tofs.append(ctx.tof_float(ctx.leg_time(a, ctx.l1u, Ei) + ctx.leg_time(b, ctx.l2u, Ef)))
        truths.append(Eo)
    t0 = ctx.t0(a, b, E)
    tofs += [ctx.tof_float(t0 * (1 + hp.F(f))) for f in (-1e-3, 1e-3)] + [0.0]
    tof = _var(tofs, 'tof', ctx.tu, ctx.tdt)
    lou = ctx.l2u if ctx.mode == ie.DIRECT else ctx.l1u
    lfu = ctx.l1u if ctx.mode == ie.DIRECT else ctx.l2u
    Lo = _var(others[0], None, lou, 'float64') if scalar_other else _var(others, 'spectrum', lou, 'float64')
    Lfv = _var(Lf, None, lfu, 'float64')
    L1, L2 = (Lfv, Lo) if ctx.mode == ie.DIRECT else (Lo, Lfv)
    res = _call(ctx.mode, tof, L1, L2, _var(E, None, ctx.eu, ctx.edt))
    ctx.rec.transitions += 1
    want_sizes = {'tof': len(tofs)} if scalar_other else {'spectrum': len(others), 'tof': len(tofs)}
    if dict(res.sizes) != want_sizes:
        ctx.rec.viol(ctx.site, ctx.kp + 'shape', f'result sizes {dict(res.sizes)}, expected {want_sizes}')
        return None
    vals = res.values.reshape(1, -1) if scalar_other else res.transpose(['spectrum', 'tof']).values
    return tofs, truths, vals, others, res


def _history_judge(ctx: Ctx, E, Lf, out, label):
    tofs, truths, vals, others, res = out
    ctx.check_meta(ctx.site, res, label)
    for s, Lo in enumerate(others):
        l1, l2 = (Lf, Lo) if ctx.mode == ie.DIRECT else (Lo, Lf)
        for j, t in enumerate(tofs):
            true = truths[j] if (s == 0 and j < len(truths)) else None
            ctx.judge(ctx.site, t, l1, l2, E, float(vals[s, j]), E_other_true=true, where=label)


def _run_history(case, rec):
    tier = case.get('tier', 'quick')
    scalar_other = case['other_leg'] == 'scalar'
    alt_unit = T_UNITS[(T_UNITS.index(case['tof_unit']) + 1) % len(T_UNITS)]
    ctxs, alts = {}, {}
    for tdt, edt in HIST_CONFIGS:
        ctxs[tdt, edt] = Ctx({**case, 'tof_dtype': tdt, 'e_dtype': edt}, rec, kind_prefix='history_')
        alts[tdt, edt] = Ctx({**case, 'tof_dtype': tdt, 'e_dtype': edt, 'tof_unit': alt_unit}, rec, kind_prefix='history_')
    c0 = ctxs['float64', 'float64']
    lfu = c0.l1u if c0.mode == ie.DIRECT else c0.l2u
    lou = c0.l2u if c0.mode == ie.DIRECT else c0.l1u
    others = [float(hp.F(x) / hp.F(hp.LENGTH[lou])) for x in HIST_OTHER_M]
    for e_mev in HIST_E_MEV:
        E = _cast(float(hp.F(e_mev) * hp.MEV / c0.efac), 'float32')  # the same float in both precisions
        for l_m in HIST_L_M:
            Lf = _cast(float(hp.F(l_m) / hp.F(hp.LENGTH[lfu])), 'float32')
            fresh = {}
            for cfg in HIST_CONFIGS:
                modstate.reset(K)
                out = _history_call(ctxs[cfg], E, Lf, others, scalar_other)
                rec.states += 1
                if out is None:
                    continue
                fresh[cfg] = out[2]
                _history_judge(ctxs[cfg], E, Lf, out, f'fresh {cfg}')
                rec.cls('history_fresh_judged')
            for pred in HIST_CONFIGS:
                for pred_unit in ('same', 'other'):
                    for cfg in HIST_CONFIGS:
                        if pred == cfg and pred_unit == 'same':
                            continue  # that is the repeat-call check of the layout family
                        modstate.reset(K)
                        pctx = ctxs[pred] if pred_unit == 'same' else alts[pred]
                        _history_call(pctx, E, Lf, others, scalar_other)
                        out = _history_call(ctxs[cfg], E, Lf, others, scalar_other)
                        rec.states += 1
                        if out is None:
                            continue
                        label = f'after {pred} ({pred_unit} tof unit) -> {cfg}'
                        _history_judge(ctxs[cfg], E, Lf, out, label)
                        rec.cls('history_judged')
                        rec.nontrivial += 1
                        if pred == ('float32', 'float32') and cfg == ('float64', 'float64'):
                            rec.cls('history_single_then_double')
                        if pred == ('float64', 'float64') and cfg == ('float32', 'float32'):
                            rec.cls('history_double_then_single')
                        if pred_unit == 'other':
                            rec.cls('history_other_tof_unit_first')
                        if scalar_other:
                            rec.cls('history_scalar_other_leg')
                        if cfg in fresh and _bit_equal(np.asarray(out[2]), np.asarray(fresh[cfg])):
                            rec.cls('history_same_bits_as_fresh')
                        else:
                            rec.cls('history_bits_differ_from_fresh')  # allowed by C05 as long as the bound holds (C09 is stricter)
    modstate.reset(K)


# ---------------------------------------------------------------------------------------
# representation family: one alphabet of arrival times (flights, times before / at / just after t0 of every pixel, 0,
# negative, tiny) handed to every public conversion route in every representation of the times: kernel call, the
# inelastic graphs through transform_coords, convert() on dense data with tof as point and as bin-edge coordinate, on
# binned data whose events carry the times, on binned data with the times as dense bin edges of the outer dim, and
# all of these inside a Dataset.  The kernel call is judged against the 50-digit reference as everywhere else; every
# other representation must give, per time and pixel, the same NaN / finite class and bits, and never +-inf.

REP_DTYPES = [(t, e) for t in DTYPES for e in DTYPES]
REP_OTHER_M = (1.3, 0.1, 30.0)
REQUIRED_CLASSES = [*REQUIRED_CLASSES, 'rep_kernel_judged', 'rep_graph', 'rep_graph_public', 'rep_dense_point', 'rep_dense_edges',
                    'rep_events', 'rep_binned_edges', 'rep_binned_edge_events', 'rep_dense_point_dataset', 'rep_dense_edges_dataset',
                    'rep_events_dataset', 'rep_binned_edges_dataset', 'rep_binned_edge_events_dataset', 'rep_nan_edge_in_binned_data', 'rep_energy_per_pixel',
                    'rep_energy_0d']
RULE = RULE + (
    ' Representation cases (geometry x energy unit x tof unit x tof dtype x energy dtype x fixed energy {0-d, per pixel}, per-pixel '
    'other leg): the time alphabet through kernel, graph + transform_coords (module graph and conversion_graph), convert on dense '
    'point / bin-edge coordinate, binned events, binned with dense outer bin edges (edges and events), each also inside a Dataset.'
)


def _rep_cases(tier):
    out = []
    for mode in (ie.DIRECT, ie.INDIRECT):
        for tdt, edt in REP_DTYPES:
            for eu in E_UNITS:
                for tu in T_UNITS:
                    for energy in ('0d', 'per_pixel'):
                        out.append({'kind': 'representation', 'mode': mode, 'e_unit': eu, 'tof_unit': tu, 'L1_unit': 'm', 'L2_unit': 'm',
                                    'tof_dtype': tdt, 'e_dtype': edt, 'energy': energy, 'tier': tier})
    return out


def _rep_check(ctx, rep, got, want, where=''):
    """got / want: arrays [spectrum, time] (or 1-d lists of per-event values).  Bits of the kernel call, never inf."""
    rec = ctx.rec
    site = f'{SITE_CONVERT}/{rep}'
    got, want = np.asarray(got), np.asarray(want)
    rec.validated += 1
    rec.evals += int(got.size)
    rec.observe(got.tobytes())
    ok = True
    if got.shape != want.shape:
        rec.viol(site, 'representation_shape', f'{where}values of shape {got.shape}, kernel call {want.shape}', representation=rep)
        return False
    if np.isinf(got).any():
        idx = [int(i) for i in np.argwhere(np.isinf(got))[0]]
        rec.viol(site, 'representation_inf', f'{where}{got[tuple(idx)]!r} at [pixel, time]={idx} for finite inputs; the kernel call gives {want[tuple(idx)]!r}; all: {got.tolist()}', representation=rep)
        ok = False
    if not _bit_equal(got, want):
        bad = np.argwhere(~((got == want) | (np.isnan(got) & np.isnan(want))))
        idx = [int(i) for i in bad[0]] if len(bad) else []
        rec.viol(site, 'representation_differs', f'{where}{len(bad)} of {got.size} values differ from the kernel call (dtype {got.dtype} vs {want.dtype}); first at [pixel, time]={idx}: {got[tuple(idx)]!r} vs {want[tuple(idx)]!r}' if idx else f'{where}dtype {got.dtype} vs kernel {want.dtype}', representation=rep)
        ok = False
    if ok:
        rec.cls('rep_' + rep)
    return ok


def _run_representation(case, rec):
    modstate.reset(K)
    ctx = Ctx(case, rec, kind_prefix='representation_')
    direct = ctx.mode == ie.DIRECT
    per_pixel_energy = case['energy'] == 'per_pixel'
    Es = [_cast(float(hp.F(e) * hp.MEV / ctx.efac), ctx.edt) for e in E_MEV['quick']]
    Lf = float(hp.F(30.0 if direct else 1.3))
    others = [float(x) for x in REP_OTHER_M]
    nspec = len(others)
    Espec = [Es[k % len(Es)] for k in range(nspec)] if per_pixel_energy else [Es[0]] * nspec
    geo = [((Lf, Lo) if direct else (Lo, Lf)) for Lo in others]
    # ---- the time alphabet --------------------------------------------------------------------------
    times, truths = [], {}
    for Eo in Es:
        Ei, Ef = (Espec[0], Eo) if direct else (Eo, Espec[0])
        t = ctx.tof_float(ctx.leg_time(geo[0][0], ctx.l1u, Ei) + ctx.leg_time(geo[0][1], ctx.l2u, Ef))
        times.append(t)
        truths.setdefault(t, Eo)
    for s in range(nspec):
        t0 = ctx.t0(geo[s][0], geo[s][1], Espec[s])
        t0f = ctx.tof_float(t0)
        times += [ctx.tof_float(t0 * (1 - hp.F(1e-3))), ctx.tof_float(t0 * (1 - hp.F(4 * ctx.band))), _float_steps(t0f, ctx.tdt, -1), t0f,
                  _float_steps(t0f, ctx.tdt, 1), ctx.tof_float(t0 * (1 + hp.F(4 * ctx.band))), ctx.tof_float(t0 * (1 + hp.F(1e-3)))]
    times += [0.0, -times[0], ctx.tof_float(ctx.t0(geo[0][0], geo[0][1], Espec[0]) * hp.F(1e-6))]
    times = list(dict.fromkeys(times))  # the same float once, order kept (unsorted on purpose)
    n = len(times)
    tof = _var(times, 'tof', ctx.tu, ctx.tdt)
    Lo = _var(others, 'spectrum', ctx.l2u if direct else ctx.l1u, 'float64')
    Lfv = _var(Lf, None, ctx.l1u if direct else ctx.l2u, 'float64')
    L1, L2 = (Lfv, Lo) if direct else (Lo, Lfv)
    ename = 'incident_energy' if direct else 'final_energy'
    E = _var(Espec, 'spectrum', ctx.eu, ctx.edt) if per_pixel_energy else _var(Espec[0], None, ctx.eu, ctx.edt)
    geom = {'L1': L1, 'L2': L2, ename: E}
    rec.cls('rep_energy_per_pixel' if per_pixel_energy else 'rep_energy_0d')
    # ---- (a) kernel call: judged against the reference, then the yardstick for every other representation ------------
    res = _call(ctx.mode, tof, L1, L2, E)
    rec.transitions += 1
    ctx.check_meta(ctx.site, res, 'representation/kernel')
    if dict(res.sizes) != {'spectrum': nspec, 'tof': n}:
        rec.viol(ctx.site, 'representation_shape', f'kernel result sizes {dict(res.sizes)}')
        return
    want = res.transpose(['spectrum', 'tof']).values
    for s in range(nspec):
        for j, t in enumerate(times):
            ctx.judge(ctx.site, t, geo[s][0], geo[s][1], Espec[s], float(want[s, j]), E_other_true=truths.get(t) if s == 0 else None, where='representation/kernel')
    rec.cls('rep_kernel_judged')
    rec.nontrivial += 1
    rec.states += 1
    has_nan = bool(np.isnan(want).any())

    def coord_of(out, name='energy_transfer'):
        c = out.coords[name]
        if set(c.dims) != {'spectrum', name}:
            return np.zeros(0)
        return c.transpose(['spectrum', name]).values

    def both(rep, da, extract, item):
        """convert() on the data array and on a Dataset holding it."""
        for suffix, obj in (('', da), ('_dataset', sc.Dataset({item: da}))):
            out = scn.convert(obj, origin='tof', target='energy_transfer', scatter=True)
            rec.transitions += 1
            rec.states += 1
            if suffix:
                out = out[item]
            for sub_rep, got in extract(out):
                _rep_check(ctx, sub_rep + suffix, got, want)

    # ---- (b) the graphs through transform_coords ----------------------------------------------------------
    dense_pt = sc.DataArray(sc.ones(dims=['spectrum', 'tof'], shape=[nspec, n], unit='counts'), coords={'tof': tof, **geom})
    g1 = G.direct_inelastic('tof') if direct else G.indirect_inelastic('tof')
    g2 = scn.conversion_graph('tof', 'energy_transfer', scatter=True, energy_mode='direct_inelastic' if direct else 'indirect_inelastic')
    for rep, g in (('graph', g1), ('graph_public', g2)):
        out = dense_pt.transform_coords('energy_transfer', graph=g)
        rec.transitions += 1
        rec.states += 1
        _rep_check(ctx, rep, coord_of(out), want)
    # ---- (c), (d) dense data: point and bin-edge coordinate ---------------------------------------------------
    both('dense_point', dense_pt, lambda out: [('dense_point', coord_of(out))], 'counts')
    dense_ed = sc.DataArray(sc.ones(dims=['spectrum', 'tof'], shape=[nspec, n - 1], unit='counts'), coords={'tof': tof, **geom})
    both('dense_edges', dense_ed, lambda out: [('dense_edges', coord_of(out))], 'counts')
    # ---- (e) binned data, the events carry the times ---------------------------------------------------------
    ev_tof = sc.array(dims=['event'], values=np.tile(np.asarray(times, dtype=NP[ctx.tdt]), nspec), unit=ctx.tu, dtype=ctx.tdt)
    events = sc.DataArray(sc.ones(dims=['event'], shape=[nspec * n], unit='counts'), coords={'tof': ev_tof})

    def per_bin(out, dims):
        con = out.bins.constituents
        b = con['begin'].transpose(dims).values.ravel()
        e = con['end'].transpose(dims).values.ravel()
        v = con['data'].coords['energy_transfer'].values
        return [v[int(i):int(k)] for i, k in zip(b, e, strict=True)]

    binned = sc.DataArray(
        sc.bins(data=events, dim='event', begin=sc.array(dims=['spectrum'], values=[s * n for s in range(nspec)], unit=None, dtype='int64'),
                end=sc.array(dims=['spectrum'], values=[(s + 1) * n for s in range(nspec)], unit=None, dtype='int64')),
        coords=dict(geom))
    both('events', binned, lambda out: [('events', np.stack(per_bin(out, ['spectrum'])) if all(len(x) == n for x in per_bin(out, ['spectrum'])) else np.zeros(0))], 'events')
    # ---- (f) binned data with the times as dense bin edges of the outer dim; bin j holds event j, the last bin two ---------
    begin = np.array([[s * n + j for j in range(n - 1)] for s in range(nspec)], dtype=np.int64)
    end = begin + 1
    end[:, -1] += 1
    binned_ed = sc.DataArray(
        sc.bins(data=events, dim='event', begin=sc.array(dims=['spectrum', 'tof'], values=begin, unit=None, dtype='int64'),
                end=sc.array(dims=['spectrum', 'tof'], values=end, unit=None, dtype='int64')),
        coords={'tof': tof, **geom})

    def extract_f(out):
        tdim = 'energy_transfer' if 'energy_transfer' in out.dims else 'tof'
        bins = per_bin(out, ['spectrum', tdim])
        flat = np.concatenate(bins) if bins else np.zeros(0)
        ev = flat.reshape(nspec, n) if flat.size == nspec * n else np.zeros(0)
        return [('binned_edges', coord_of(out)), ('binned_edge_events', ev)]

    both('binned_edges', binned_ed, extract_f, 'events')
    if has_nan:
        rec.cls('rep_nan_edge_in_binned_data')
    modstate.reset(K)


# ---------------------------------------------------------------------------------------
# layout / reuse exploration shared by the kernel properties (props/layouts.py): every combination of operand layouts
# (0-d, 1-d over either of two dims, 2-d, 2-d transposed) must equal the element-wise 0-d calls, also after every operand
# has been overwritten in place and the kernel is called again.

from props import layouts as _layouts  # noqa: E402

_LAYOUT_SITES = ['conversion.tof.energy_transfer_direct_from_tof', 'conversion.tof.energy_transfer_indirect_from_tof']
_cases_main, _run_case_main = cases, run_case
RULE = RULE + ' Layout cases: every combination of operand layouts (0d / 1-d a / 1-d b / 2-d ab / 2-d stored ba) per kernel x unit-dtype variant, each followed by an in-place update of all operands and a second call.'
REQUIRED_CLASSES = [*REQUIRED_CLASSES, 'layout_ok', 'reuse_after_inplace_update_ok', 'layout_transposed_operand', 'repeat_call_identical']


def cases(tier):
    return _cases_main(tier) + _history_cases(tier) + _rep_cases(tier) + _layouts.cases_for(_LAYOUT_SITES, variants=(0, 1, 2, 3, 4) if tier == 'thorough' else (0, 1, 3))


def run_case(case, rec):
    if case.get('kind') == 'layout':
        modstate.reset(K)
        _layouts.run_layout_case(case, rec)
    elif case.get('kind') == 'history':
        _run_history(case, rec)
    elif case.get('kind') == 'representation':
        _run_representation(case, rec)
    else:
        _run_case_main(case, rec)
