"""Hand-written documents for the independent CIF 1.1 parser (ref/cifparse.py)."""
import math

import pytest

from ref import cifparse as cp
from ref.cifparse import CifSyntaxError, Loop, Pair, Value


def items(text, block=0):
    return cp.parse(text).blocks[block].items


def err(text, **kw):
    with pytest.raises(CifSyntaxError) as e:
        cp.parse(text, **kw)
    return e.value.code


# --- whole documents --------------------------------------------------------------------


def test_typical_document():
    text = (
        '#\\#CIF_1.1\n'
        '# a comment\n'
        'data_example\n'
        '\n'
        '_diffrn_radiation.probe neutron\n'
        "_diffrn_source.facility 'made up'\n"
        '\n'
        'loop_\n'
        '_pd_meas.time_of_flight\n'
        '_pd_proc.intensity_net\n'
        '1.2 13.6\n'
        '1.4 26.0\n'
        '2.3 9.7\n'
    )
    doc = cp.parse(text, require_header=True)
    assert doc.header
    assert doc.comments == [(1, '\\#CIF_1.1'), (2, ' a comment')]
    assert [b.name for b in doc.blocks] == ['example']
    a, b, c = doc.blocks[0].items
    assert a == Pair('diffrn_radiation.probe', Value('bare', 'neutron'))
    assert b == Pair('diffrn_source.facility', Value('sq', 'made up'))
    assert isinstance(c, Loop)
    assert c.tags == ['pd_meas.time_of_flight', 'pd_proc.intensity_net']
    assert [[v.text for v in r] for r in c.rows] == [['1.2', '13.6'], ['1.4', '26.0'], ['2.3', '9.7']]


def test_empty_and_blank_documents():
    assert cp.parse('').blocks == []
    assert cp.parse('\n\n  \t\n').blocks == []
    assert cp.parse('# only a comment').comments == [(1, ' only a comment')]
    assert cp.parse('data_a\n').blocks[0].items == []


def test_header_detection():
    assert cp.parse('#\\#CIF_1.1\ndata_a\n').header
    assert not cp.parse('data_a\n').header
    assert not cp.parse('# x\n#\\#CIF_1.1\ndata_a\n').header
    assert err('data_a\n', require_header=True) == 'missing_header'


def test_multiple_blocks_and_case_insensitive_keywords():
    doc = cp.parse('DATA_one\n_a 1\nData_two\nLOOP_\n_b\n_c\n1 2\n')
    assert [b.name for b in doc.blocks] == ['one', 'two']
    assert doc.blocks[0].items == [Pair('a', Value('bare', '1'))]
    assert doc.blocks[1].items[0].tags == ['b', 'c']


def test_line_endings():
    for eol in ('\n', '\r\n', '\r'):
        text = eol.join(['data_a', '_x', ';line1', 'line2', ';', '_y 2', ''])
        assert items(text) == [Pair('x', Value('text', 'line1' + eol + 'line2')), Pair('y', Value('bare', '2'))]
    its = items('data_a\r\n_t\r\n;l1\r\nl2\r\n;\r\n_y 2\r\n')
    assert its == [Pair('t', Value('text', 'l1\r\nl2')), Pair('y', Value('bare', '2'))]
    its = items('data_a\r_t\r;l1\r;\r_y 2')
    assert its == [Pair('t', Value('text', 'l1')), Pair('y', Value('bare', '2'))]


# --- comments ----------------------------------------------------------------------------


def test_hash_starts_comment_only_at_token_start():
    assert items('data_a\n_z 5#\n') == [Pair('z', Value('bare', '5#'))]
    doc = cp.parse('data_a\n_x a#b\n_y c #d e\n')
    assert doc.blocks[0].items == [Pair('x', Value('bare', 'a#b')), Pair('y', Value('bare', 'c'))]
    assert doc.comments == [(3, 'd e')]


def test_hash_inside_quotes_and_text_is_content():
    doc = cp.parse("data_a\n_x '# no'\n_y\n;# neither\n;\n")
    assert doc.comments == []
    assert doc.blocks[0].items == [Pair('x', Value('sq', '# no')), Pair('y', Value('text', '# neither'))]


def test_value_swallowed_by_comment_is_an_error():
    assert err('data_a\n_x #abc\n') == 'tag_without_value'
    # ... and silently shifts values when another tag/value follows
    assert err('data_a\n_x #abc\n_y 1\n') == 'tag_without_value'


def test_comment_content_is_never_data():
    doc = cp.parse('data_a\n# _tag value\n# loop_\n#;text\n# data_b\n_x 1\n')
    assert [b.name for b in doc.blocks] == ['a']
    assert doc.blocks[0].items == [Pair('x', Value('bare', '1'))]
    assert [c for _, c in doc.comments] == [' _tag value', ' loop_', ';text', ' data_b']


# --- quoted strings -----------------------------------------------------------------------


def test_quote_closes_only_before_blank_or_eof():
    assert items("data_a\n_x 'it's'\n") == [Pair('x', Value('sq', "it's"))]
    assert items('data_a\n_x "a"b"\n') == [Pair('x', Value('dq', 'a"b'))]
    assert items("data_a\n_x 'a'") == [Pair('x', Value('sq', 'a'))]  # closed by end of file
    assert items("data_a\n_x 'a'\t_y 'b'\n") == [Pair('x', Value('sq', 'a')), Pair('y', Value('sq', 'b'))]
    assert items("data_a\n_x ''\n") == [Pair('x', Value('sq', ''))]
    assert items('data_a\n_x \'say "hi" now\'\n') == [Pair('x', Value('sq', 'say "hi" now'))]


def test_quote_blank_inside_closes_early():
    # 'a' b' : the value is "a", then b' is a stray value
    assert err("data_a\n_x 'a' b'\n") == 'value_without_tag'
    assert err('data_a\n_x "a" b"\n') == 'value_without_tag'


def test_unterminated_quote():
    assert err("data_a\n_x 'abc\n") == 'unterminated_quote'
    assert err("data_a\n_x 'abc'def\n") == 'unterminated_quote'
    assert err('data_a\n_x "abc\n_y 1"\n') == 'unterminated_quote'  # quotes do not span lines


def test_quote_inside_bare_word_is_content():
    assert items("data_a\n_x a'b\n_y a\"b\n") == [Pair('x', Value('bare', "a'b")), Pair('y', Value('bare', 'a"b'))]


def test_tab_separates_tokens():
    assert err('data_a\n_x a\tb\n') == 'value_without_tag'
    assert items("data_a\n_x 'a\tb'\n") == [Pair('x', Value('sq', 'a\tb'))]
    assert items('data_a\n_x\ta\n') == [Pair('x', Value('bare', 'a'))]


# --- text fields ----------------------------------------------------------------------------


def test_text_field_basic():
    its = items('data_a\n_x\n; first\nsecond\n;\n_y 1\n')
    assert its == [Pair('x', Value('text', ' first\nsecond')), Pair('y', Value('bare', '1'))]


def test_text_field_empty_and_single_line():
    assert items('data_a\n_x\n;\n;\n') == [Pair('x', Value('text', ''))]
    assert items('data_a\n_x\n;abc\n;\n') == [Pair('x', Value('text', 'abc'))]
    assert items('data_a\n_x\n;abc\n\n;\n') == [Pair('x', Value('text', 'abc\n'))]


def test_semicolon_only_special_in_column_one():
    its = items('data_a\n_x ;abc\n_y a;b\n_z ;\n')
    assert its == [Pair('x', Value('bare', ';abc')), Pair('y', Value('bare', 'a;b')), Pair('z', Value('bare', ';'))]
    # inside a text field, ' ;' (not in column 1) does not close it
    assert items('data_a\n_x\n;a\n ;b\n;\n') == [Pair('x', Value('text', 'a\n ;b'))]


def test_semicolon_in_column_one_opens_text_field():
    # "_x\n;abc\n" : the writer meant the value ';abc' but opened a text field
    assert err('data_a\n_x\n;abc\n') == 'unterminated_text_field'
    # ... which swallows what follows up to the next ';' line
    its = items('data_a\n_x\n;abc\n_y 1\n;\n')
    assert its == [Pair('x', Value('text', 'abc\n_y 1'))]


def test_newline_semicolon_ends_text_field_early():
    # the value 'a\n;b' written naively as a text field
    assert err('data_a\n_x\n; a\n;b\n;\n') == 'no_blank_after_text_field'
    # with a blank after the premature terminator the rest is a stray value
    assert err('data_a\n_x\n; a\n; b\n;\n') in ('value_without_tag', 'unterminated_text_field')


def test_text_field_in_loop():
    its = items('data_a\nloop_\n_a\n_b\n;t1\n;\nx\ny\n;t2\nmore\n;\n')
    assert its[0].rows == [
        [Value('text', 't1'), Value('bare', 'x')],
        [Value('bare', 'y'), Value('text', 't2\nmore')],
    ]


def test_text_field_closer_followed_by_token_on_same_line():
    its = items('data_a\nloop_\n_a\n_b\n;t1\n; x\n')
    assert its[0].rows == [[Value('text', 't1'), Value('bare', 'x')]]


# --- reserved words, tags, illegal starts ------------------------------------------------------


@pytest.mark.parametrize('word', ['global_', 'GLOBAL_', 'stop_', 'Stop_', 'save_', 'save_frame', 'SAVE_x'])
def test_reserved_words_are_never_values(word):
    assert err(f'data_a\n_x {word}\n') == 'reserved_word'
    assert items(f"data_a\n_x '{word}'\n") == [Pair('x', Value('sq', word))]


def test_loop_and_data_as_values_change_structure():
    assert err('data_a\n_x loop_\n') == 'tag_without_value'
    assert err('data_a\n_x data_b\n') == 'tag_without_value'
    assert err('data_a\n_x 1\n_y DATA_\n') == 'empty_block_name'
    doc = cp.parse('data_a\n_x 1\ndata_b\n')
    assert [b.name for b in doc.blocks] == ['a', 'b']


def test_empty_block_name():
    assert err('data_\n_x 1\n') == 'empty_block_name'


def test_underscore_value_is_a_tag():
    assert err('data_a\n_x _abc\n') == 'tag_without_value'
    assert err('data_a\n_x _\n') == 'bad_tag'
    assert err('data_a\nloop_\n_a\n_b 1\n') == 'loop_value_count'


@pytest.mark.parametrize('word', ['$abc', '[abc', ']abc', '[', '$'])
def test_illegal_unquoted_start(word):
    assert err(f'data_a\n_x {word}\n') == 'illegal_unquoted_start'
    assert items(f'data_a\n_x "{word}"\n') == [Pair('x', Value('dq', word))]
    # not at the start they are ordinary
    assert items(f'data_a\n_x a{word}\n') == [Pair('x', Value('bare', 'a' + word))]


def test_question_mark_and_dot_are_ordinary_tokens():
    assert items('data_a\n_x ?\n_y .\n') == [Pair('x', Value('bare', '?')), Pair('y', Value('bare', '.'))]


# --- structure errors -----------------------------------------------------------------------


def test_structure_errors():
    assert err('_x 1\n') == 'item_outside_block'
    assert err('abc\ndata_a\n') == 'item_outside_block'
    assert err('data_a\nabc\n') == 'value_without_tag'
    assert err('data_a\n_x 1 2\n') == 'value_without_tag'
    assert err('data_a\n_x\n') == 'tag_without_value'
    assert err('data_a\n_x\n_y 1\n') == 'tag_without_value'
    assert err('data_a\nloop_\n1 2\n') == 'loop_without_tags'
    assert err('data_a\nloop_\n_a\n_b\n') == 'loop_value_count'
    assert err('data_a\nloop_\n_a\n_b\n1 2 3\n') == 'loop_value_count'
    assert err('data_a\nloop_\n_a\n_b\n1 2\n_c\n') == 'tag_without_value'


def test_loop_ends_at_next_tag_loop_or_block():
    its = items('data_a\nloop_\n_a\n1\n2\n_b 3\nloop_\n_c\n4\n')
    assert [type(i).__name__ for i in its] == ['Loop', 'Pair', 'Loop']
    assert [len(its[0].rows), len(its[2].rows)] == [2, 1]


def test_illegal_characters():
    assert err('data_a\n_x ü\n') == 'illegal_char'
    assert err('data_a\n# 日\n') == 'illegal_char'
    assert err('data_a\n_x a\x0cb\n') == 'illegal_char'
    assert err('data_a\n_x a\x00b\n') == 'illegal_char'
    assert err('data_a\n_x \x7f\n') == 'illegal_char'


def test_error_positions():
    with pytest.raises(CifSyntaxError) as e:
        cp.parse('data_a\n_x 1\n  $y\n')
    assert (e.value.line, e.value.col) == (3, 3)


# --- helpers -----------------------------------------------------------------------------------


def test_parse_number():
    assert cp.parse_number('1.2') == (1.2, None, 0.1)
    assert cp.parse_number('-5') == (-5.0, None, 1.0)
    assert cp.parse_number('1e+300') == (1e300, None, 1e300)
    assert cp.parse_number('1e-300')[0] == 1e-300
    assert cp.parse_number('1.20(3)') == (1.2, 0.03, 0.01)
    assert cp.parse_number('0(1000)') == (0.0, 1000.0, 1.0)
    assert cp.parse_number('-0.1000(10)') == (-0.1, 0.001, 0.0001)
    assert cp.parse_number('12345(12)') == (12345.0, 12.0, 1.0)
    v, s, u = cp.parse_number('1.5e-3(2)')
    assert (v, u) == (0.0015, 1e-4) and math.isclose(s, 2e-4)
    assert cp.parse_number('.5') == (0.5, None, 0.1)
    assert cp.parse_number('5.') == (5.0, None, 1.0)
    for bad in ('abc', '1.2.3', '', '1e', '(3)', '1.2(3', '?', '.', '1.2()', 'nan', 'inf'):
        assert cp.parse_number(bad) is None


def test_rounding_unit():
    assert cp.rounding_unit('1.20(3)') == 0.01
    assert cp.rounding_unit('12345(12)') == 1.0
    assert cp.rounding_unit('0(1000)') == 100.0
    assert cp.rounding_unit('0(3000)') == 1000.0
    assert cp.rounding_unit('10000000000(10000000)') == 1e6
    assert cp.rounding_unit('-0.1000(10)') == 0.0001
    assert cp.rounding_unit('5(2)') == 1.0
    assert cp.rounding_unit('120(25)') == 1.0
    assert cp.rounding_unit('1.2') is None
    assert cp.rounding_unit('abc') is None


def test_unescape():
    assert cp.unescape('\\xfc') == 'ü'
    assert cp.unescape('\\u65e5\\u672c') == '日本'
    assert cp.unescape('\\U0001f600') == '\U0001f600'
    assert cp.unescape('plain \\n') == 'plain \\n'


def test_representable():
    assert cp.representable('abc')
    assert cp.representable('a\nb')
    assert cp.representable('a;b')
    assert cp.representable(';abc')
    assert cp.representable('\n;abc')  # leading blanks may be dropped -> ';abc' can be quoted
    assert not cp.representable('a\n;b')
    assert not cp.representable('a\n;')
    assert cp.representable('a\n ;b')
    assert cp.representable('it\'s "both" \' and " ')


def test_duplicate_tags():
    b = cp.parse('data_a\n_x 1\n_X 2\nloop_\n_y\n_x\n1 2\n').blocks[0]
    assert cp.duplicate_tags(b) == ['X', 'x']
