"""Hand-written cases for the exact rotating-disk simulator ref/disk.py.

Every expected number below was worked out by hand from the picture: a disk seen from the
source, angles anticlockwise from the TDC mark, beam at a fixed laboratory angle.
"""
import os
import sys
from fractions import Fraction as F

import pytest

sys.path.insert(0, os.path.dirname(os.path.dirname(os.path.abspath(__file__))))
from ref.disk import Disk, arcs_overlap, arcs_touch  # noqa: E402

Q = F(1, 4)


def spans(ops):
    return [(o.open, o.close) for o in ops]


def test_one_slit_clockwise_beam_at_tdc():
    # 1 turn/s clockwise, slit 0..90 deg, beam at the sensor, TDC mark at the sensor at t=0.
    # Clockwise rotation brings points at anticlockwise angle theta to the top after theta
    # turns: the slit begins to pass at t=0 and has passed at t=1/4; again one period later.
    d = Disk([(0, Q)], beam=0, phase=0, freq=-1)
    assert d.is_open(0) and d.is_open(F(1, 8)) and d.is_open(Q)
    assert not d.is_open(F(3, 8)) and not d.is_open(F(-1, 8))
    assert spans(d.openings(0, 1)) == [(0, Q), (1, 1 + Q)]
    assert spans(d.openings(F(1, 8), F(1, 8))) == [(0, Q)]
    assert spans(d.openings(F(1, 2), F(3, 4))) == []
    o = d.openings(0, F(1, 2))[0]
    assert o.slits == ((0, 0),) and o.duration == Q


def test_one_slit_anticlockwise_beam_at_tdc():
    # anticlockwise: the point at +90 deg is at the top a quarter turn *before* the mark,
    # so the slit passes during [-1/4, 0] (end edge first), and again during [3/4, 1].
    d = Disk([(0, Q)], beam=0, phase=0, freq=1)
    assert spans(d.openings(0, 1)) == [(-Q, 0), (3 * Q, 1)]
    assert d.openings(F(1, 2), 1)[0].slits == ((0, -1),)
    assert d.is_open(F(-1, 8)) and not d.is_open(F(1, 8))


def test_beam_position_shifts_in_opposite_directions():
    # beam 90 deg anticlockwise of the sensor.  Clockwise disk: the slit 0..90 deg is under
    # the beam a quarter turn earlier: [-1/4, 0].  Anticlockwise disk: a quarter turn later
    # than [-1/4, 0], i.e. [0, 1/4].
    assert spans(Disk([(0, Q)], Q, 0, -1).openings(0, 0)) == [(-Q, 0)]
    assert spans(Disk([(0, Q)], Q, 0, 1).openings(0, F(1, 8))) == [(0, Q)]


def test_phase_is_tdc_time_times_frequency():
    # 2 turns/s clockwise (freq = -2).  TDC mark at the sensor at t_tdc = +0.1 s means
    # phase = freq * t_tdc = -0.2 turn.  The slit 0..90 deg then opens at 0.1 s and stays
    # open for 1/8 s.
    d = Disk([(0, Q)], beam=0, phase=F(-2, 10), freq=-2)
    assert spans(d.openings(F(1, 10), F(1, 10))) == [(F(1, 10), F(1, 10) + F(1, 8))]
    # a phase of whole turns changes nothing
    assert spans(Disk([(0, Q)], 0, 3, -1).openings(0, 1)) == spans(Disk([(0, Q)], 0, 0, -1).openings(0, 1))


def test_two_slits_order_in_time_depends_on_sense():
    s = [(F(10, 360), F(20, 360)), (F(100, 360), F(130, 360))]
    cw = Disk(s, 0, 0, -1).openings(0, F(1, 2))
    assert spans(cw) == [(F(10, 360), F(20, 360)), (F(100, 360), F(130, 360))]
    assert [o.slits for o in cw] == [((0, 0),), ((1, 0),)]
    acw = Disk(s, 0, 0, 1).openings(F(1, 2), 1)
    assert spans(acw) == [(F(230, 360), F(260, 360)), (F(340, 360), F(350, 360))]
    assert [o.slits for o in acw] == [((1, -1),), ((0, -1),)]


def test_slit_spanning_tdc_and_negative_begin_are_the_same_arc():
    a = Disk([(F(350, 360), F(370, 360))], 0, 0, -1)
    b = Disk([(F(-10, 360), F(10, 360))], 0, 0, -1)
    want = [(F(-10, 360), F(10, 360)), (F(350, 360), F(370, 360))]
    assert spans(a.openings(0, 1)) == want
    assert spans(b.openings(0, 1)) == want
    # ... but they are numbered one rotation apart
    assert a.openings(0, 0)[0].slits == ((0, -1),)
    assert b.openings(0, 0)[0].slits == ((0, 0),)


def test_overlapping_and_touching_arcs_merge():
    d = Disk([(0, F(100, 360)), (F(60, 360), F(140, 360))], 0, 0, -1)
    ops = d.openings(0, 0)
    assert spans(ops) == [(0, F(140, 360))]
    assert ops[0].slits == ((0, 0), (1, 0))
    t = Disk([(0, F(100, 360)), (F(100, 360), F(140, 360))], 0, 0, -1)
    assert spans(t.openings(0, 0)) == [(0, F(140, 360))]
    w = Disk([(F(350, 360), F(370, 360)), (F(5, 360), F(20, 360))], 0, 0, -1)
    assert spans(w.openings(0, 0)) == [(F(-10, 360), F(20, 360))]


def test_full_turn_slit_is_always_open():
    assert Disk([(0, 1)], 0, 0, 1).openings(0, 5) is None
    assert Disk([(0, F(400, 360))], 0, 0, 1).openings(0, 5) is None
    assert Disk([(0, F(1, 2)), (F(1, 2), 1)], 0, 0, 1).openings(0, 5) is None
    assert Disk([], 0, 0, 1).openings(0, 5) == []
    assert not Disk([(0, F(359, 360))], 0, 0, 1).always_open()


def test_openings_that_only_touch_the_span_are_included():
    d = Disk([(0, Q)], 0, 0, -1)
    assert spans(d.openings(Q, F(1, 2))) == [(0, Q)]
    assert spans(d.openings(F(1, 2), 1)) == [(1, 1 + Q)]


def test_min_feature_and_period():
    d = Disk([(F(20, 360), F(30, 360)), (F(31, 360), F(39, 360))], 0, 0, F(-7, 2))
    assert d.period == F(2, 7)
    assert d.min_feature() == F(1, 360) * F(2, 7)
    # arcs 355..359 and 350..352 (given as -10..-8): widths 4 and 2, gaps 3 and 351 degrees
    assert Disk([(F(355, 360), F(359, 360)), (F(-10, 360), F(-8, 360))], 0, 0, 1).min_feature() == F(2, 360)
    # arcs 355..359 and 350..354: gap of 1 degree
    assert Disk([(F(355, 360), F(359, 360)), (F(-10, 360), F(-6, 360))], 0, 0, 1).min_feature() == F(1, 360)


def test_edge_times_are_exactly_the_predicate_flips():
    d = Disk([(F(10, 360), F(20, 360)), (F(340, 360), F(365, 360))], F(37, 360), F(725, 360), F(14, 3))
    ev = d.edge_times(-1, 1)
    # 2 s at 14/3 turns/s = 9 1/3 turns, 4 edges per turn
    assert 36 <= len(ev) <= 38
    eps = d.min_feature() / 1000
    for t in ev:
        assert d.is_open(t)  # arcs are closed
        assert d.is_open(t - eps) != d.is_open(t + eps)


@pytest.mark.parametrize(
    ('slits', 'overlap'),
    [
        ([(0, 100), (60, 140)], True),
        ([(10, 100), (30, 40)], True),
        ([(350, 370), (5, 20)], True),
        ([(-10, 10), (340, 355)], True),
        ([(0, 400)], True),
        ([(300, 420), (10, 20)], True),
        ([(100, 120), (350, 365), (0, 10)], True),
        ([(0, 360)], False),
        ([(0, 100), (100, 140)], False),
        ([(350, 370), (10, 20)], False),
        ([(350, 370), (11, 20)], False),
        ([(-10, 10), (100, 130)], False),
        ([(20, 30), (31, 39), (100, 101), (200, 215), (300, 320), (340, 365)], False),
    ],
)
def test_arcs_overlap(slits, overlap):
    s = [(F(b, 360), F(e, 360)) for b, e in slits]
    assert arcs_overlap(s) is overlap
    assert arcs_overlap(list(reversed(s))) is overlap
    # the simulator agrees: overlapping arcs make fewer openings per turn than there are arcs
    d = Disk(s, 0, 0, -1)
    ops = d.openings(0, 1 - F(1, 10**6))
    if ops is not None and not arcs_touch(s):
        merged = any(len(o.slits) > 1 for o in ops)
        assert merged is overlap


def test_arcs_touch():
    f = lambda ss: [(F(b, 360), F(e, 360)) for b, e in ss]  # noqa: E731
    assert arcs_touch(f([(0, 100), (100, 140)]))
    assert arcs_touch(f([(350, 370), (10, 20)]))
    assert arcs_touch(f([(0, 360)]))
    assert not arcs_touch(f([(350, 370), (11, 20)]))
