"""Hand-written cases for the cylinder reference model ref/cyl.py."""
import math
import os
import sys

HERE = os.path.dirname(os.path.abspath(__file__))
ROOT = os.path.dirname(HERE)
for p in (ROOT, os.path.join(ROOT, 'vendor')):
    if p not in sys.path:
        sys.path.insert(0, p)

import numpy as np  # noqa: E402
import pytest  # noqa: E402
from scipy import integrate  # noqa: E402

from ref import cyl  # noqa: E402

mpf = cyl.mpf


def approx(a, b, tol=1e-40):
    return abs(mpf(a) - mpf(b)) <= tol


# --- frame -----------------------------------------------------------------------------


@pytest.mark.parametrize(
    'axis', [(0, 0, 1), (0, 0, -1), (1, 0, 0), (0, -1, 0), (0.6, 0.0, -0.8), (1, 1, 1), (-2, 3, -6), (3e-11, 0, -1)]
)
def test_frame_is_orthonormal_right_handed_and_e3_is_the_axis(axis):
    fr = cyl.Frame(axis, (1.0, -2.0, 3.0))
    e1, e2, e3 = fr.e
    dot = lambda u, v: sum(x * y for x, y in zip(u, v, strict=True))  # noqa: E731
    for u in (e1, e2, e3):
        assert approx(dot(u, u), 1)
    assert approx(dot(e1, e2), 0) and approx(dot(e1, e3), 0) and approx(dot(e2, e3), 0)
    n = math.sqrt(sum(x * x for x in axis))
    for i in range(3):
        assert abs(float(e3[i]) - axis[i] / n) < 1e-15
    # right-handed: e1 x e2 = e3
    c = [e1[1] * e2[2] - e1[2] * e2[1], e1[2] * e2[0] - e1[0] * e2[2], e1[0] * e2[1] - e1[1] * e2[0]]
    for i in range(3):
        assert approx(c[i], e3[i])


def test_local_coordinates_of_hand_computed_points():
    # cylinder along -x with base at (5, 0, 0): the point (3, 0.5, 0) is 2 up the axis, 0.5 off it
    fr = cyl.Frame((-1, 0, 0), (5.0, 0.0, 0.0))
    p = fr.local_point((3.0, 0.5, 0.0))
    assert approx(p[2], 2)
    assert approx(p[0] ** 2 + p[1] ** 2, 0.25)
    loc = fr.np_local_points(np.array([[3.0, 0.5, 0.0], [6.0, 0.0, 1.0]]))
    assert loc[0, 2] == pytest.approx(2.0) and np.hypot(*loc[0, :2]) == pytest.approx(0.5)
    assert loc[1, 2] == pytest.approx(-1.0) and np.hypot(*loc[1, :2]) == pytest.approx(1.0)
    # round trip through the float frame
    back = fr.to_global_point(loc)
    assert np.allclose(back, [[3.0, 0.5, 0.0], [6.0, 0.0, 1.0]], atol=1e-15)


def test_membership_tilted_cylinder():
    # axis (0.6, 0, -0.8), base origin, r = 1, h = 0.5
    fr = cyl.Frame((0.6, 0.0, -0.8))
    inside = [(0.15, 0.0, -0.2), (0.15, 0.9, -0.2), (0.0, 0.0, 0.0), (0.27, 0.0, -0.36)]
    outside = [(-0.15, 0.0, 0.2), (0.15, 1.1, -0.2), (0.36, 0.0, -0.48), (0.15, 0.0, 0.2)]
    for q in inside:
        assert cyl.inside(fr.local_point(q), 1.0, 0.5), q
    for q in outside:
        assert not cyl.inside(fr.local_point(q), 1.0, 0.5), q
    # the mirror-axis point (0.15, 0, +0.2) is outside although it is inside the cylinder about (0.6, 0, +0.8)
    assert cyl.inside(cyl.Frame((0.6, 0.0, 0.8)).local_point((0.15, 0.0, 0.2)), 1.0, 0.5)
    loc = fr.np_local_points(np.array(inside + outside))
    assert cyl.np_inside(loc, 1.0, 0.5).tolist() == [True] * 4 + [False] * 4


def test_grow_and_shrink():
    p = [mpf('1.05'), mpf(0), mpf('0.25')]
    assert not cyl.inside(p, 1, 0.5)
    assert cyl.inside(p, 1, 0.5, grow=0.1)
    q = [mpf('0.95'), mpf(0), mpf('0.25')]
    assert cyl.inside(q, 1, 0.5) and not cyl.inside(q, 1, 0.5, grow=-0.1)
    assert not cyl.inside(q, 1, 0.5, grow=-0.3)  # height exhausted


# --- rays (local coordinates, exact hand values) ------------------------------------------

S2 = math.sqrt(2)
RAYS = [
    # start, direction, r, h, expected length
    ((0, 0, 0.5), (1, 0, 0), 1, 1, 1.0),  # centre, radial
    ((0, 0, 0.5), (0, 0, 1), 1, 1, 0.5),  # centre, along the axis
    ((0, 0, 0.5), (0, 0, -1), 1, 1, 0.5),
    ((0, 0, 0.25), (0, 0, 1), 1, 1, 0.75),
    ((-3, 0, 0.5), (1, 0, 0), 1, 1, 2.0),  # from outside through the diameter
    ((-3, 0, 0.5), (-1, 0, 0), 1, 1, 0.0),  # pointing away
    ((-3, 0, 1.5), (1, 0, 0), 1, 1, 0.0),  # above the top cap
    ((0.5, 0, -2), (0, 0, 1), 1, 1, 1.0),  # from below, through both caps
    ((1.5, 0, -2), (0, 0, 1), 1, 1, 0.0),  # parallel, outside the radius
    ((-1, 0, 0), (2 / math.sqrt(5), 0, 1 / math.sqrt(5)), 1, 1, math.sqrt(5)),  # rim to opposite rim
    ((0, 0, 0), (1 / S2, 0, 1 / S2), 1, 1, S2),  # leaves through the rim
    ((0, 0, 0), (1 / S2, 0, 1 / S2), 1, 2, S2),  # leaves through the wall
    ((0, 0, 0), (1 / S2, 0, 1 / S2), 2, 1, S2),  # leaves through the cap
    ((0, 0.6, 0.5), (1, 0, 0), 1, 1, 0.8),  # chord at distance 0.6 from the axis: inside start -> half chord
    ((-5, 0.6, 0.5), (1, 0, 0), 1, 1, 1.6),  # full chord
    ((-5, 1.0, 0.5), (1, 0, 0), 1, 1, 0.0),  # tangent line: touches in one point
    ((-5, 1.5, 0.5), (1, 0, 0), 1, 1, 0.0),  # misses
    ((0, 0, 0.5), (0.6, 0, 0.8), 1e-3, 1e3, 1e-3 / 0.6),  # needle
    ((0, 0, 0.5e-3), (0.6, 0, 0.8), 1e3, 1e-3, 0.5e-3 / 0.8),  # disk
]


@pytest.mark.parametrize(('p', 'd', 'r', 'h', 'want'), RAYS)
def test_ray_length_hand_values(p, d, r, h, want):
    got = cyl.ray_length([mpf(x) for x in p], [mpf(x) for x in d], r, h)
    assert abs(float(got) - want) <= 1e-14 * max(1.0, want)
    got_np = cyl.np_ray_length(np.array([p], dtype=float), np.array([d], dtype=float), r, h)[0]
    assert abs(got_np - want) <= 1e-12 * max(1.0, want)


def test_ray_length_agrees_with_membership_sampling():
    """The analytic interval equals the measure of {t : inside(p + t d)} found by dense
    sampling of the membership predicate alone."""
    r, h = 0.7, 1.3
    rng_pts = [(-0.9, 0.2, -0.4), (0.1, -0.2, 0.3), (0.69, 0.0, 1.29), (2.0, 2.0, 2.0), (0.0, 0.0, -1.0)]
    dirs = [(1, 0.3, 0.5), (-0.2, 0.1, 1.0), (0.5, -0.5, -0.1), (-1, -1, -0.8), (0.1, 0.05, 1)]
    n = 20000
    tmax = 6.0
    ts = (np.arange(n) + 0.5) * (tmax / n)
    for p in rng_pts:
        for d in dirs:
            dn = np.array(d) / np.linalg.norm(d)
            pts = np.array(p)[None, :] + ts[:, None] * dn[None, :]
            sampled = cyl.np_inside(pts, r, h).sum() * (tmax / n)
            exact = float(cyl.ray_length([mpf(x) for x in p], [mpf(float(x)) for x in dn], r, h))
            assert abs(sampled - exact) <= 2 * tmax / n + 1e-12, (p, d)


def test_global_path_length_in_a_moved_cylinder():
    # the same ray described in a rotated + translated scene has the same length
    fr = cyl.Frame((0.0, 0.6, -0.8), (10.0, -20.0, 30.0))
    start = fr.to_global_point(np.array([-1.0, 0.0, 0.0]))
    direction = fr.to_global_dir(np.array([2.0, 0.0, 1.0]))
    got = cyl.path_length(fr, 1, 1, start, direction)
    assert abs(float(got) - math.sqrt(5)) < 1e-13
    lo, hi = cyl.path_length_bounds(fr, 1, 1, start, direction, 1e-6)
    assert lo < got < hi and float(hi - lo) < 1e-4


def test_bounds_of_a_ray_in_the_surface_are_wide():
    p = [mpf(1), mpf(0), mpf('0.5')]
    d = [mpf(0), mpf(0), mpf(1)]
    assert cyl.ray_length(p, d, 1, 1, -1e-9) == 0
    assert abs(float(cyl.ray_length(p, d, 1, 1, 1e-9)) - 0.5) < 1e-8


# --- integration rule and transmission ---------------------------------------------------


def test_solid_nodes_integrate_polynomials():
    r, h = 0.7, 1.3
    pts, w = cyl.solid_nodes(r, h, 6, 16, 6)
    V = math.pi * r * r * h
    assert w.sum() == pytest.approx(V, rel=1e-13)
    assert cyl.np_inside(pts, r, h).all()
    assert (w @ pts[:, 2]) == pytest.approx(V * h / 2, rel=1e-13)
    assert (w @ pts[:, 0] ** 2) == pytest.approx(V * r * r / 4, rel=1e-12)
    assert (w @ pts[:, 2] ** 2) == pytest.approx(V * h * h / 3, rel=1e-12)
    assert (w @ (pts[:, 0] ** 2 * pts[:, 1] ** 2)) == pytest.approx(h * math.pi * r**6 / 24, rel=1e-12)
    m = cyl.moments(pts, w)
    assert m['m0'] == pytest.approx(V) and abs(m['m1'][0]) < 1e-14 and abs(m['m2'][0, 1]) < 1e-14


def test_attenuation_formula():
    assert cyl.attenuation(2.0, 3.0, 0.0, 7.0) == 6.0
    assert cyl.attenuation(2.0, 0.0, 5.0, 1.7982) == pytest.approx(10.0)
    assert cyl.attenuation(2.0, 1.0, 5.0, 2 * 1.7982) == pytest.approx(22.0)


def test_transmission_axial_beam_and_detector_on_axis_is_exponential():
    # beam along the axis and the detector on the axis far away: every point sees L1 + L2 = h
    # up to the tiny obliquity of the outgoing ray
    r, h, mu = 1e-3, 1.0, 1.3
    T, err = cyl.transmission_exact(r, h, (0, 0, 1.0), np.array([[0.0, 0.0, 1e6]]), [0.0, mu])
    assert T[0, 0] == pytest.approx(1.0, abs=1e-13)
    assert T[0, 1] == pytest.approx(math.exp(-mu * h), rel=1e-9)
    assert err[0, 1] < 1e-9


def test_transmission_against_the_one_dimensional_formula_of_the_repository_test():
    """Cylinder r = h = 1, beam perpendicular to the axis, detector at infinity straight
    ahead: T = 2/pi int_{-1}^{1} sqrt(1-x^2) exp(-2 mu sqrt(1-x^2)) dx."""
    for mu in (0.1, 0.5, 1.0):
        want = 2 / math.pi * integrate.quad(
            lambda x, mu=mu: math.sqrt(1 - x * x) * math.exp(-2 * mu * math.sqrt(1 - x * x)), -1, 1
        )[0]
        T, err = cyl.transmission_exact(1.0, 1.0, (1.0, 0, 0), np.array([[1e9, 0.0, 0.5]]), [mu], n=(16, 64, 16))
        assert abs(T[0, 0] - want) < 3e-6 * (1 - want)
        assert err[0, 0] < 1e-4


def test_transmission_reference_converges():
    dets = np.array([[5.0, 1.0, 2.0], [-3.0, -4.0, -1.0]])
    coarse, _ = cyl.transmission_exact(0.5, 1.5, (0.48, 0.6, 0.64), dets, [0.2, 2.0], n=(16, 64, 16))
    fine, _ = cyl.transmission_exact(0.5, 1.5, (0.48, 0.6, 0.64), dets, [0.2, 2.0], n=(32, 128, 32))
    assert np.abs(coarse - fine).max() < 2e-6 * (1 - fine).max()
