"""Hand-written checks of ref/kin.py (and the ref/hp.py definitions it evaluates).

Expected numbers are the textbook neutron relations (NIST CODATA 2018 values quoted
from memory, independent of any code under test):
    lambda[angstrom] = 3956.034 / v[m/s]
    E[meV]           = 81.8042 / lambda[angstrom]^2
    t[us]            = 252.778 * lambda[angstrom] * L[m]
    1 meV            = 1.602176634e-22 J
"""
import math
import os
import sys

sys.path.insert(0, os.path.dirname(os.path.dirname(os.path.abspath(__file__))))
from mc import env  # noqa: E402

env.setup_paths()

from ref import hp, kin  # noqa: E402


def close(a, b, rel):
    return abs(float(a) - b) <= rel * abs(b)


def test_unit_tables_are_exact():
    assert kin.to_si('time', 3.0, 'us') == hp.mpf(3) / 10**6
    assert kin.to_si('length', 2.0, 'angstrom') == hp.mpf(2) / 10**10
    assert kin.to_si('inv_length', 2.0, '1/angstrom') == hp.mpf(2) * 10**10
    assert kin.to_si('accel', 9.81, 'm/ms^2') == hp.mpf(9.81) * 10**6
    assert close(kin.to_si('energy', 1.0, 'meV'), 1.602176634e-22, 1e-12)
    assert close(kin.to_si('energy', 1.0, 'ueV'), 1.602176634e-25, 1e-12)
    assert close(kin.to_si('energy', 2.0, 'keV'), 3.204353268e-16, 1e-12)
    assert kin.to_si('energy', 2.5, 'J') == hp.mpf(2.5)
    assert kin.to_si('energy', 3.0, 'meV') == hp.energy_si(3.0, 'meV')
    assert kin.to_si('length', 2.0, 'pm') == hp.mpf(2) / 10**12
    assert kin.to_si('inv_length', 2.0, '1/um') == hp.mpf(2) * 10**6
    assert close(kin.to_si('angle', 180.0, 'deg'), math.pi, 1e-15)
    assert kin.from_si('length', kin.to_si('length', 7.0, 'km'), 'km') == 7
    assert kin.inv_unit('nm') == '1/nm'


def test_thermal_neutron_wavelength_energy_speed():
    # 1.8 angstrom: 25.248 meV, 2197.8 m/s
    e = kin.reference('energy_from_wavelength', {'wavelength': 1.8}, {'wavelength': 'angstrom'})
    assert close(e, 81.8042 / 1.8**2, 2e-6)
    lam = kin.reference('wavelength_from_energy', {'energy': 81.8042 / 1.8**2}, {'energy': 'meV'})
    assert close(lam, 1.8, 2e-6)
    # the same energy given in J and in ueV
    lam_j = kin.reference('wavelength_from_energy', {'energy': 25.2482 * 1.602176634e-22}, {'energy': 'J'})
    lam_u = kin.reference('wavelength_from_energy', {'energy': 25248.2}, {'energy': 'ueV'})
    assert close(lam_j, 1.8, 1e-5) and close(lam_u, 1.8, 1e-5)
    assert close(hp.speed_from_energy(kin.to_si('energy', 25.2482, 'meV')), 3956.034 / 1.8, 1e-5)


def test_time_of_flight_relations_in_several_units():
    # 10 m flight path, 1.8 angstrom -> 252.778 * 1.8 * 10 us
    t_us = 252.778 * 1.8 * 10
    for tv, tu, lv, lu in ((t_us, 'us', 10.0, 'm'), (t_us * 1e-3, 'ms', 10000.0, 'mm'), (t_us * 1e3, 'ns', 0.01, 'km'), (t_us * 1e-6, 's', 1e11, 'angstrom')):
        lam = kin.reference('wavelength_from_tof', {'tof': tv, 'Ltotal': lv}, {'tof': tu, 'Ltotal': lu})
        assert close(lam, 1.8, 3e-6), (tu, lu, lam)
        e = kin.reference('energy_from_tof', {'tof': tv, 'Ltotal': lv}, {'tof': tu, 'Ltotal': lu})
        assert close(e, 81.8042 / 1.8**2, 6e-6), (tu, lu, e)
        d = kin.reference('dspacing_from_tof', {'tof': tv, 'Ltotal': lv, 'two_theta': 180.0}, {'tof': tu, 'Ltotal': lu, 'two_theta': 'deg'})
        assert close(d, 0.9, 3e-6), (tu, lu, d)


def test_bragg_and_momentum_transfer():
    u = {'wavelength': 'angstrom', 'two_theta': 'deg'}
    # 2 theta = 60 deg: sin(theta) = 1/2 -> d = lambda, Q = 2 pi / lambda
    assert close(kin.reference('dspacing_from_wavelength', {'wavelength': 2.5, 'two_theta': 60.0}, u), 2.5, 1e-15)
    assert close(kin.reference('Q_from_wavelength', {'wavelength': 2.5, 'two_theta': 60.0}, u), 2 * math.pi / 2.5, 1e-15)
    # output unit of Q follows the wavelength unit
    assert kin.out_unit('Q_from_wavelength', {'wavelength': 'nm', 'two_theta': 'rad'}) == ('inv_length', '1/nm')
    q_nm = kin.reference('Q_from_wavelength', {'wavelength': 0.25, 'two_theta': math.pi / 3}, {'wavelength': 'nm', 'two_theta': 'rad'})
    assert close(q_nm, 2 * math.pi / 0.25, 1e-15)
    # wavelength from Q given in 1/nm comes out in angstrom
    lam = kin.reference('wavelength_from_Q', {'Q': 2 * math.pi / 0.25, 'two_theta': 60.0}, {'Q': '1/nm', 'two_theta': 'deg'})
    assert close(lam, 2.5, 1e-15)
    # backscattering d-spacing from energy: lambda/2
    d = kin.reference('dspacing_from_energy', {'energy': 81.8042 / 4.0, 'two_theta': math.pi}, {'energy': 'meV', 'two_theta': 'rad'})
    assert close(d, 1.0, 2e-6)


def test_inelastic_reference_conserves_energy_by_construction():
    ei_mev, ef_mev, l1, l2 = 50.0, 20.0, 12.0, 2.5
    vi = hp.speed_from_energy(kin.to_si('energy', ei_mev, 'meV'))
    vf = hp.speed_from_energy(kin.to_si('energy', ef_mev, 'meV'))
    t = float((l1 / vi + l2 / vf) * 10**6)  # us, rounded to a float
    units_d = {'tof': 'us', 'L1': 'm', 'L2': 'm', 'incident_energy': 'meV'}
    r = kin.energy_transfer_reference('direct', {'tof': t, 'L1': l1, 'L2': l2, 'incident_energy': ei_mev}, units_d)
    assert close(r['value'], ei_mev - ef_mev, 1e-13)
    assert close(r['t0'], float(l1 / vi), 1e-15)
    units_i = {'tof': 'us', 'L1': 'm', 'L2': 'm', 'final_energy': 'meV'}
    r = kin.energy_transfer_reference('indirect', {'tof': t, 'L1': l1, 'L2': l2, 'final_energy': ef_mev}, units_i)
    assert close(r['value'], ei_mev - ef_mev, 1e-13)
    # same flight with lengths in mm, time in ms, energy in ueV
    r = kin.energy_transfer_reference('indirect', {'tof': t * 1e-3, 'L1': l1 * 1e3, 'L2': l2 * 1e3, 'final_energy': ef_mev * 1e3}, {'tof': 'ms', 'L1': 'mm', 'L2': 'mm', 'final_energy': 'ueV'})
    assert close(r['value'], (ei_mev - ef_mev) * 1e3, 1e-12)
    # earlier than t0: unphysical
    r = kin.energy_transfer_reference('direct', {'tof': 1.0, 'L1': l1, 'L2': l2, 'incident_energy': ei_mev}, units_d)
    assert r['value'] is None and r['amp'] is None and 0 < r['margin'] < 1
    # conditioning amplifier grows when t approaches t0
    t0_us = float(l1 / vi * 10**6)
    near = kin.energy_transfer_reference('direct', {'tof': t0_us * 1.001, 'L1': l1, 'L2': l2, 'incident_energy': ei_mev}, units_d)
    far = kin.energy_transfer_reference('direct', {'tof': t0_us * 2, 'L1': l1, 'L2': l2, 'incident_energy': ei_mev}, units_d)
    assert near['margin'] < far['margin'] and near['amp'] > 1e3 * far['amp']


def test_single_precision_domains():
    u = {'tof': 'ms', 'Ltotal': 'm'}
    assert kin.io_in_range('energy_from_tof', {'tof': 2.0, 'Ltotal': 3.0}, u)
    assert not kin.io_in_range('energy_from_tof', {'tof': 1e18, 'Ltotal': 3.0}, {'tof': 'ns', 'Ltotal': 'm'})  # tof^2 = 1e36
    assert kin.io_in_range('energy_from_tof', {'tof': 1.0, 'Ltotal': 1e-9}, {'tof': 's', 'Ltotal': 'm'})  # result 5e-24 meV is fine
    assert not kin.io_in_range('wavelength_from_tof', {'tof': 1e-31, 'Ltotal': 3.0}, u)  # input below 1e-30
    assert not kin.io_in_range('energy_from_wavelength', {'wavelength': 1e24}, {'wavelength': 'nm'})  # wavelength^2 = 1e48
    assert not kin.io_in_range('wavelength_from_tof', {'tof': 1e-9, 'Ltotal': 1e27}, {'tof': 'ns', 'Ltotal': 'km'})  # result 4e-42 angstrom
    ok = {'tof': 8.0, 'L1': 3.0, 'L2': 1.0, 'incident_energy': 5.0}
    uu = {'tof': 'ms', 'L1': 'm', 'L2': 'm', 'incident_energy': 'meV'}
    assert kin.energy_transfer_io_in_range('direct', ok, uu)
    # the constant m_n/2 in J (s/angstrom)^2 is 8e-48, but inputs, t0 and energies are all representable: in domain
    weird = {'tof': 0.008, 'L1': 3e10, 'L2': 1e10, 'incident_energy': 5 * 1.602176634e-22}
    assert kin.energy_transfer_io_in_range('direct', weird, {'tof': 's', 'L1': 'angstrom', 'L2': 'angstrom', 'incident_energy': 'J'})
    # a squared length beyond 1e30 is not
    assert not kin.energy_transfer_io_in_range('direct', {**weird, 'L1': 3e16}, {'tof': 's', 'L1': 'angstrom', 'L2': 'angstrom', 'incident_energy': 'J'})


def test_gravity_drop_is_free_fall_over_the_flight_time():
    lam, L2, g = 4.0e-10, 10.0, 9.81
    v = 3956.034 / 4.0
    t = L2 / v
    assert close(kin.gravity_drop(hp.mpf(g), hp.mpf(L2), hp.mpf(lam)), 0.5 * g * t * t, 1e-6)


def test_beam_aligned_frame_and_gravity_angles():
    b1 = hp.vec([0.0, 0.0, 5.0])
    g = hp.vec([0.0, -9.81, 0.0])
    ex, ey, ez = kin.beam_aligned_unit_vectors(b1, g)
    assert [float(x) for x in ex] == [1.0, 0.0, 0.0]
    assert [float(x) for x in ey] == [0.0, 1.0, 0.0]
    assert [float(x) for x in ez] == [0.0, 0.0, 1.0]
    # tilted beam: ez is the projection onto the plane perpendicular to gravity
    ex, ey, ez = kin.beam_aligned_unit_vectors(hp.vec([0.0, 3.0, 4.0]), g)
    assert [float(x) for x in ez] == [0.0, 0.0, 1.0]
    # negligible gravity: plain spherical angles of the scattered beam
    b2 = hp.vec([1.0, 1.0, 1.0])
    tt, phi, gamma = kin.gravity_angles_orthogonal(b1, b2, hp.mpf(4e-10), hp.vec([0.0, -1e-30, 0.0]))
    assert close(tt, math.acos(1 / math.sqrt(3)), 1e-15)
    assert close(phi, math.pi / 4, 1e-15)
    assert close(gamma, math.pi / 4, 1e-15)
    # real gravity lifts the direction the neutron left in: y' > y
    tt2, phi2, gamma2 = kin.gravity_angles_orthogonal(b1, b2, hp.mpf(20e-10), g)
    assert phi2 > phi and gamma2 > gamma and tt2 > tt


def test_propagation():
    # 4 angstrom neutrons need 252.778 * 4 us per metre
    assert close(kin.inverse_velocity(hp.mpf(4e-10)), 252.778e-6 * 4, 3e-6)
    assert close(kin.propagate_time(hp.mpf(0.002), hp.mpf(4e-10), hp.mpf(3.0)), 0.002 + 3 * 252.778e-6 * 4, 3e-6)


def test_rel_err_and_angle_between():
    assert hp.rel_err(1.0 + 1e-9, hp.mpf(1)) == float(abs(hp.mpf(1.0 + 1e-9) - 1))
    assert hp.rel_err(float('nan'), hp.mpf(1)) == float('inf')
    assert close(hp.angle_between(hp.vec([1.0, 0.0, 0.0]), hp.vec([0.0, 2.0, 0.0])), math.pi / 2, 1e-15)
