"""Hand-written cases for the csv-based table model (tiny tables written by the test itself)."""
import os
import sys

import pytest

sys.path.insert(0, os.path.dirname(os.path.dirname(os.path.abspath(__file__))))
from ref import tables  # noqa: E402

SCATT = (
    'H,-3.739,,,,,,,,1.7568,,80.26,,82.02,,0.3326,\n'
    '2H,6.671,,,,4.04,,,,5.592,,2.05,,7.64,,0.000519,\n'
    'He,3.26,3.0,,,,,,,1.34,,0.0,,1.34,,0.00747,\n'
    'Xx,,,,,,,,,,,,,,,12.5,0.5\n'
)
WEIGHTS = '# comment, with a comma\nElement,Z,Atomic Weight [Da],Uncertainty [Da]\nH,1,1.008,0.0002\nHe,2,4.0026,0.0001\nTc,43,,\n'
MASSES = '# comment\nIsotope,Atomic Mass [Da],Uncertainty [Da]\n1H,1.007825031898,0.000000000014\n2H,2.014101777844,0.000000000015\n98Tc,97.9072124,0.0000036\n9Zz,9.5,0.1\n'


@pytest.fixture
def tab(tmp_path):
    (tmp_path / 'scattering_parameters.csv').write_text(SCATT)
    (tmp_path / 'atomic_weights.csv').write_text(WEIGHTS)
    (tmp_path / 'atomic_masses.csv').write_text(MASSES)
    return tables.load(str(tmp_path))


def test_scattering_row(tab):
    h = tab.expected_scattering('H')
    assert h['coherent_scattering_length_re'] == (-3.739, None, 'fm')
    assert h['coherent_scattering_length_im'] is None
    assert h['incoherent_scattering_length_re'] is None
    assert h['coherent_scattering_cross_section'] == (1.7568, None, 'barn')
    assert h['incoherent_scattering_cross_section'] == (80.26, None, 'barn')
    assert h['total_scattering_cross_section'] == (82.02, None, 'barn')
    assert h['absorption_cross_section'] == (0.3326, None, 'barn')
    assert list(h) == [f for f, _ in tables.SCATTERING_FIELDS]


def test_scattering_variance_is_std_squared_and_blank_is_none(tab):
    he = tab.expected_scattering('He')
    assert he['coherent_scattering_length_re'] == (3.26, 9.0, 'fm')
    xx = tab.expected_scattering('Xx')
    assert [v for v in xx.values() if v is not None] == [(12.5, 0.25, 'barn')]
    assert xx['absorption_cross_section'] == (12.5, 0.25, 'barn')
    d = tab.expected_scattering('2H')
    assert d['incoherent_scattering_length_re'] == (4.04, None, 'fm')


def test_scattering_exact_name_only(tab):
    for name in ('h', 'H ', ' H', '1H', 'He3', '', 'H,', 'Isotope', '2', '2H2'):
        assert tab.expected_scattering(name) is None


def test_atom_element(tab):
    assert tab.expected_atom('H') == {'z': 1, 'weight': (1.008, 0.0002**2, 'Da'), 'mass': None}
    assert tab.expected_atom('Tc') == {'z': 43, 'weight': None, 'mass': None}


def test_atom_isotope(tab):
    assert tab.expected_atom('2H') == {'z': 1, 'weight': (1.008, 0.0002**2, 'Da'), 'mass': (2.014101777844, 0.000000000015**2, 'Da')}
    assert tab.expected_atom('98Tc') == {'z': 43, 'weight': None, 'mass': (97.9072124, 0.0000036**2, 'Da')}


def test_atom_unknown_names(tab):
    for name in ('3H', 'h', '2h', 'H2', '02H', '2H ', ' 2H', '', 'Element', 'Isotope', 'Z', '2', '9Zz', 'Zz', '2He', '2H\n', 'H\n', '1.008'):
        assert tab.expected_atom(name) is None, name


def test_header_words_and_names(tab):
    assert 'Element' in tab.header_words
    assert 'Isotope' in tab.header_words
    assert 'Atomic Mass [Da]' in tab.header_words
    assert '# comment, with a comma' in tab.header_words
    assert tab.all_names() == ['H', '2H', 'He', 'Xx', 'Tc', '1H', '98Tc', '9Zz']
    assert tab.duplicates == []


def test_split_name():
    assert tables.split_name('12C') == ('12', 'C')
    assert tables.split_name('C') == (None, 'C')
    assert tables.split_name('C12') is None
    assert tables.split_name('12C\n') is None
    assert tables.split_name('') is None
    assert tables.split_name('12') is None


def test_malformed_table_is_an_error(tmp_path):
    (tmp_path / 'scattering_parameters.csv').write_text('H,1,2\n')
    (tmp_path / 'atomic_weights.csv').write_text(WEIGHTS)
    (tmp_path / 'atomic_masses.csv').write_text(MASSES)
    with pytest.raises(ValueError):
        tables.load(str(tmp_path))
