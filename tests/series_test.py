"""Hand-written cases for the list-based plateau / in-phase reference model."""
import os
import sys
from fractions import Fraction as Fr

import pytest

sys.path.insert(0, os.path.dirname(os.path.dirname(os.path.abspath(__file__))))
from ref import series  # noqa: E402


def test_constant_series_is_one_plateau():
    assert series.plateaus(range(12), [4.2] * 12, 1e-7, 3) == [(0, 12)]


def test_single_point():
    assert series.maximal_runs([5], [1.0], 0.1) == [(0, 1)]
    assert series.plateaus([5], [1.0], 0.1, 1) == [(0, 1)]
    assert series.plateaus([5], [1.0], 0.1, 2) == []


def test_no_plateau_on_a_ramp():
    xs = list(range(6))
    ys = [0, 1, 2, 3, 4, 5]
    assert series.maximal_runs(xs, ys, 0.5) == [(i, i + 1) for i in range(6)]
    assert series.plateaus(xs, ys, 0.5, 2) == []
    assert series.plateaus(xs, ys, 0.5, 1) == [(i, i + 1) for i in range(6)]


def test_two_plateaus_with_transition_points():
    # data 0 0 1 2 2 2 1 (the collapse example of the documentation)
    xs = [12, 13, 14, 15, 16, 17, 18]
    ys = [0, 0, 1, 2, 2, 2, 1]
    assert series.maximal_runs(xs, ys, 0.1) == [(0, 2), (2, 3), (3, 6), (6, 7)]
    assert series.plateaus(xs, ys, 0.1, 2) == [(0, 2), (3, 6)]
    assert series.plateaus(xs, ys, 0.1, 3) == [(3, 6)]
    col = series.collapse(xs, ys, [(0, 2), (3, 6)])
    assert [(c['mean'], c['min'], c['max'], c['n']) for c in col] == [(0, 12, 13, 2), (2, 15, 17, 3)]


def test_adjacent_plateaus_split_at_the_jump():
    xs = [0, 1, 2, 3, 4, 5]
    ys = [-5, -5, -3, -3, -3, -2]
    assert series.plateaus(xs, ys, 0.1, 2) == [(0, 2), (2, 5)]


def test_slope_exactly_at_tolerance_is_inside_and_just_above_is_outside():
    atol = 0.125
    assert series.maximal_runs([0, 1], [0.0, atol], atol) == [(0, 2)]
    assert series.maximal_runs([0, 1], [0.0, -atol], atol) == [(0, 2)]
    just = atol * (1 + 2.0**-20)
    assert series.maximal_runs([0, 1], [0.0, just], atol) == [(0, 1), (1, 2)]
    # the same step over twice the distance is half the slope
    assert series.maximal_runs([0, 2], [0.0, just], atol) == [(0, 2)]
    assert series.maximal_runs([0, 2], [0.0, 8 * atol], atol) == [(0, 1), (1, 2)]


def test_non_uniform_coordinates_use_the_local_step():
    xs = [0, 1, 3, 4]
    ys = [0.0, 0.2, 0.4, 0.6]  # slopes 0.2, 0.1, 0.2
    assert series.maximal_runs(xs, ys, 0.15) == [(0, 1), (1, 3), (3, 4)]


def test_unsorted_or_repeated_coordinates_are_rejected():
    with pytest.raises(ValueError):
        series.slopes([0, 0], [1, 1])
    with pytest.raises(ValueError):
        series.slopes([1, 0], [1, 1])


def test_collapse_mean_is_exact():
    col = series.collapse([0, 1, 2], [0.1, 0.2, 0.4], [(0, 3)])
    assert col[0]['mean'] == (Fr(0.1) + Fr(0.2) + Fr(0.4)) / 3
    assert col[0]['absmax'] == Fr(0.4)


def test_guard():
    xs = list(range(100))
    ys = [i / 100 for i in range(100)]
    runs = series.plateaus(xs, ys, 0.02, 2)
    assert runs == [(0, 100)]
    assert series.guard_fires(xs, ys, runs, 0.02)
    assert not series.guard_fires([0, 1, 2], [0.0, 0.01, 0.0], [(0, 3)], 0.02)
    assert not series.guard_fires([0], [0.0], [(0, 1)], 0.02)


@pytest.mark.parametrize(
    ('f', 'ref', 'rtol', 'want'),
    [
        (8, 4, Fr(1, 10), 'keep'),  # multiple
        (2, 4, Fr(1, 10), 'keep'),  # divisor
        (4, 4, Fr(1, 10), 'keep'),
        (7, 4, Fr(1, 10), 'drop'),  # 1.75
        (3, 4, Fr(1, 10), 'drop'),  # 0.75 / 1.333
        (-8, -4, Fr(1, 10), 'keep'),
        (-8, 4, Fr(1, 10), 'keep'),  # n = -2
        (-3, -4, Fr(1, 10), 'drop'),
        (0, 4, Fr(1, 10), 'keep'),  # 0 * ref
        (0.6, 1.2, Fr(1, 10), 'keep'),
        (2.4, 1.2, Fr(1, 10), 'keep'),
        (3.3, 1.2, Fr(1, 10), 'dontcare'),  # 2.75: 0.25 from 3 (drop), but within 10 % of 3.6 (keep)
        (0.23, 1.2, Fr(1, 10), 'outside'),  # 1/5.217 with 10 %: bands of ref/5 and ref/6 nearly touch
        (0.43, 1.2, Fr(1, 10), 'dontcare'),  # 1/2.79: 0.21 from 3 (drop), but within 10 % of 1.2/3 (keep)
        (3.3, 1.2, Fr(1, 100), 'drop'),
        (0.23, 1.2, Fr(1, 100), 'drop'),
        (Fr(14, 3), 14, Fr(1, 1000), 'keep'),
        (Fr(21), 14, Fr(1, 1000), 'drop'),  # 3/2
        (Fr(28, 3), 14, Fr(1, 1000), 'drop'),  # 2/3
        (Fr(1442, 10), 14, Fr(1, 1000), 'drop'),  # 10.3
    ],
)
def test_in_phase_clear_cases(f, ref, rtol, want):
    assert series.in_phase(f, ref, rtol) == want


def test_in_phase_small_deviation_kept_under_both_readings():
    rtol = Fr(1, 1000)
    # 3*ref*(1 + rtol/24): deviation of f/ref from 3 is rtol/8
    assert series.in_phase(Fr(14) * 3 * (1 + rtol / 24), 14, rtol) == 'keep'
    # ref/3*(1 + rtol/24)
    assert series.in_phase(Fr(14, 3) * (1 + rtol / 24), 14, rtol) == 'keep'
    assert series.in_phase(Fr(14, 3) * (1 - rtol / 24), 14, rtol) == 'keep'


def test_in_phase_large_deviation_dropped_under_both_readings():
    rtol = Fr(1, 1000)
    assert series.in_phase(Fr(14) * 3 * (1 + 4 * rtol), 14, rtol) == 'drop'
    assert series.in_phase(Fr(14, 3) * (1 + 4 * rtol), 14, rtol) == 'drop'
    assert series.in_phase(Fr(14) * (1 - 4 * rtol), 14, rtol) == 'drop'


def test_in_phase_readings_disagree_is_dontcare():
    rtol = Fr(1, 1000)
    # 16*ref*(1 + rtol/4): target-relative deviation rtol/4 (keep), reference-relative 4*rtol (drop)
    assert series.in_phase(Fr(14) * 16 * (1 + rtol / 4), 14, rtol) == 'dontcare'
    # exactly on the boundary
    assert series.in_phase(Fr(14) * (1 + rtol), 14, rtol) == 'dontcare'
    # just inside / outside the margin around the boundary
    assert series.in_phase(Fr(14) * (1 + rtol * Fr(10, 9)), 14, rtol) == 'dontcare'
    assert series.in_phase(Fr(14) * (1 + rtol * Fr(8, 9)), 14, rtol) == 'dontcare'
    assert series.in_phase(Fr(14) * (1 + rtol * Fr(7, 8)), 14, rtol) == 'keep'
    assert series.in_phase(Fr(14) * (1 + rtol * Fr(8, 7)), 14, rtol) == 'drop'


def test_in_phase_outside_the_bound():
    assert series.in_phase(14 * 1000.5, 14, Fr(1, 1000)) == 'outside'
    # tiny frequency: every value is within rtol of some ref/m
    assert series.in_phase(Fr(14) / Fr(6001, 2), 14, Fr(1, 1000)) == 'outside'
    with pytest.raises(ValueError):
        series.in_phase(1, 0, Fr(1, 1000))


def test_frac_is_exact():
    assert series.frac(0.1) == Fr(3602879701896397, 36028797018963968)
    assert series.frac(3) == 3
    with pytest.raises(ValueError):
        series.frac(float('nan'))
