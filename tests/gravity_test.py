"""Hand-written cases for ref/gravity.py (the C04 reference model)."""
import os
import sys

sys.path.insert(0, os.path.dirname(os.path.dirname(os.path.abspath(__file__))))
from mc import env  # noqa: E402

env.ensure_vendor()

import scipp.constants  # noqa: E402,F401 - hp reads sc.constants

from ref import gravity as gr, hp  # noqa: E402

mpf = hp.mpf
atan = hp.mpmath.atan

G = [mpf(0), mpf('-9.81'), mpf(0)]
# wavelength of a 1000 m/s neutron: h / (m_n * 1000 m/s) = 3.956 angstrom
LAM_1000 = hp.H / (hp.M_N * 1000)


def close(a, b, tol=mpf(10) ** -40):
    return abs(mpf(a) - mpf(b)) <= tol


def test_drop_is_free_fall_over_the_flight_time():
    # 10 m at 1000 m/s takes 0.01 s; g t^2 / 2 = 9.81 * 1e-4 / 2
    assert close(gr.drop(mpf('9.81'), LAM_1000, mpf(10)), mpf('4.905e-4'))
    assert abs(LAM_1000 / hp.ANGSTROM - mpf('3.956034')) < mpf('1e-5')
    # quadratic in lambda and in L2, linear in g
    assert close(gr.drop(mpf(2), 3 * LAM_1000, mpf(5)), mpf(2) * 9 * 25 * mpf('1e-6') / 2)


def test_frame_for_lab_axes_and_for_a_tilted_beam():
    ex, ey, ez = gr.frame([mpf(0), mpf(0), mpf(7)], G)
    assert (ex, ey, ez) == ([1, 0, 0], [0, 1, 0], [0, 0, 1])
    # tilting the beam inside the y-z plane does not change the frame (e_z is the horizontal projection)
    ex, ey, ez = gr.frame([mpf(0), mpf(3), mpf(4)], G)
    assert (ex, ey, ez) == ([1, 0, 0], [0, 1, 0], [0, 0, 1])
    # gravity along -z, beam along x: e_y = +z, e_z = x, e_x = e_y x e_z = y
    ex, ey, ez = gr.frame([mpf(2), mpf(0), mpf(0)], [mpf(0), mpf(0), mpf(-1)])
    assert (ex, ey, ez) == ([0, 1, 0], [0, 0, 1], [1, 0, 0])


def test_forward_detector_horizontal_beam():
    d = mpf('4.905e-4')
    r = gr.angles([mpf(0), mpf(0), mpf(3)], [mpf(0), mpf(0), mpf(10)], LAM_1000, G)
    assert close(r['delta'], d)
    assert close(r['two_theta'], atan(d / 10))  # the neutron was launched upwards
    assert close(r['two_theta_inplane'], r['two_theta'])
    assert close(r['gamma'], r['two_theta'])
    assert close(r['phi'], hp.PI / 2)
    assert r['two_theta_free'] == 0
    assert r['g_dot_b1_over_g'] == 0 and r['tilt'] == 0


def test_detector_above_is_seen_at_a_larger_angle_below_at_a_smaller_one():
    b1 = [mpf(0), mpf(0), mpf(1)]
    up = gr.angles(b1, [mpf(0), mpf(1), mpf(10)], LAM_1000, G)
    dn = gr.angles(b1, [mpf(0), mpf(-1), mpf(10)], LAM_1000, G)
    d = gr.drop(mpf('9.81'), LAM_1000, mpf(101).sqrt())
    assert close(up['two_theta'], atan((1 + d) / 10)) and up['two_theta'] > up['two_theta_free']
    assert close(dn['two_theta'], atan((1 - d) / 10)) and dn['two_theta'] < dn['two_theta_free']
    assert close(up['phi'], hp.PI / 2) and close(dn['phi'], -hp.PI / 2)
    assert close(dn['gamma'], atan((1 - d) / 10))


def test_sideways_detector_phi_and_reflectometry_angle():
    # detector at (4, 0, 3): x_d = 4, y' = delta, z_d = 3
    r = gr.angles([mpf(0), mpf(0), mpf(1)], [mpf(4), mpf(0), mpf(3)], LAM_1000, G)
    d = gr.drop(mpf('9.81'), LAM_1000, mpf(5))
    assert close(r['phi'], atan(d / 4))
    assert close(r['gamma'], atan(d / 3))  # ignores x
    assert close(r['two_theta'], hp.mpmath.atan2((16 + d * d).sqrt(), 3))


def test_tilted_beam_general_construction_differs_from_inplane_by_the_tilt():
    d = mpf('4.905e-4')
    tau = mpf('0.25')
    b1 = [mpf(0), hp.mpmath.sin(tau), hp.mpmath.cos(tau)]
    r = gr.angles(b1, [mpf(0), mpf(0), mpf(10)], LAM_1000, G)
    # angle between (0, sin, cos) and (0, delta, 10), both in the y-z plane
    assert close(r['two_theta'], tau - atan(d / 10))
    assert close(r['two_theta_free'], tau)
    assert close(r['two_theta_inplane'], atan(d / 10))
    assert close(r['tilt'], tau)
    assert close(r['g_dot_b1_over_g'], -hp.mpmath.sin(tau))  # beam pointing upwards: against gravity
    # the raised beam does not depend on b1: lowering the tilt to zero changes 2theta by at most the tilt
    r0 = gr.angles([mpf(0), mpf(0), mpf(1)], [mpf(0), mpf(0), mpf(10)], LAM_1000, G)
    assert abs(r['two_theta'] - r0['two_theta']) <= tau


def test_wrap_diff():
    assert close(gr.wrap_diff(3.0, -3.0), 2 * hp.PI - 6)
    assert gr.wrap_diff(1.0, 1.0) == 0
    assert close(gr.wrap_diff(hp.PI, -hp.PI), 0)
