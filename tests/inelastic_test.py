"""Hand-written cases for ref/inelastic.py (the C05 reference model)."""
import os
import sys

sys.path.insert(0, os.path.dirname(os.path.dirname(os.path.abspath(__file__))))
from mc import env  # noqa: E402

env.ensure_vendor()

import scipp.constants  # noqa: E402,F401 - hp reads sc.constants

from ref import hp, inelastic as ie  # noqa: E402

mpf = hp.mpf
HALF_M = hp.M_N / 2


def close(a, b, rel):
    return abs(a - b) <= rel * abs(b)


def test_speed_textbook_values():
    # 2200 m/s neutrons have 25.3 meV; a 1 angstrom neutron has 81.804 meV and 3956.03 m/s
    assert close(ie.speed(mpf('25.30') * hp.MEV), mpf(2200), 1e-3)
    assert close(ie.speed(mpf('81.8042') * hp.MEV), mpf('3956.034'), 1e-5)


def test_speed_inverts_kinetic_energy():
    for v in (mpf(13), mpf(1000), mpf('43740.5')):
        assert close(ie.speed(HALF_M * v * v), v, mpf(10) ** -45)


def test_arrival_time_by_hand():
    # 1000 m/s over 10 m, then 500 m/s over 10 m: 0.01 s + 0.02 s
    Ei, Ef = HALF_M * mpf(10) ** 6, HALF_M * mpf(25) * mpf(10) ** 4
    assert close(ie.arrival_time(Ei, Ef, mpf(10), mpf(10)), mpf('0.03'), mpf(10) ** -45)
    assert close(ie.t0(ie.DIRECT, mpf(10), mpf(10), Ei), mpf('0.01'), mpf(10) ** -45)
    assert close(ie.t0(ie.INDIRECT, mpf(10), mpf(10), Ef), mpf('0.02'), mpf(10) ** -45)


def test_transfer_by_hand():
    Ei, Ef = HALF_M * mpf(10) ** 6, HALF_M * mpf(25) * mpf(10) ** 4
    want = HALF_M * mpf(75) * mpf(10) ** 4
    t = mpf('0.03')
    assert close(ie.transfer(ie.DIRECT, t, mpf(10), mpf(10), Ei), want, mpf(10) ** -45)
    assert close(ie.transfer(ie.INDIRECT, t, mpf(10), mpf(10), Ef), want, mpf(10) ** -45)
    # neutron gains energy: second leg faster
    Ef2 = HALF_M * mpf(4) * mpf(10) ** 6  # 2000 m/s
    t2 = mpf('0.01') + mpf(3) / 2000
    assert close(ie.transfer(ie.DIRECT, t2, mpf(10), mpf(3), Ei), Ei - Ef2, mpf(10) ** -45)
    assert close(ie.transfer(ie.INDIRECT, t2, mpf(10), mpf(3), Ef2), Ei - Ef2, mpf(10) ** -45)
    assert ie.transfer(ie.DIRECT, t2, mpf(10), mpf(3), Ei) < 0


def test_both_geometries_conserve_energy_on_a_grid():
    for Ei in (mpf('1e-3'), mpf(25), mpf('1e4')):
        for Ef in (mpf('0.5'), mpf(25), mpf(300)):
            for L1, L2 in ((mpf('0.1'), mpf(1000)), (mpf(30), mpf('1.3'))):
                ei, ef = Ei * hp.MEV, Ef * hp.MEV
                t = ie.arrival_time(ei, ef, L1, L2)
                for mode, e in ((ie.DIRECT, ei), (ie.INDIRECT, ef)):
                    got = ie.transfer(mode, t, L1, L2, e)
                    assert abs(got - (ei - ef)) <= mpf(10) ** -40 * max(ei, ef)


def test_elastic_flight_has_zero_transfer():
    E = mpf(25) * hp.MEV
    t = (mpf(7) + mpf(2)) / ie.speed(E)
    assert abs(ie.transfer(ie.DIRECT, t, mpf(7), mpf(2), E)) <= mpf(10) ** -45 * E
    assert abs(ie.transfer(ie.INDIRECT, t, mpf(7), mpf(2), E)) <= mpf(10) ** -45 * E


def test_unphysical_times_are_undefined():
    Ei = HALF_M * mpf(10) ** 6  # 1000 m/s, t0 = 0.01 s over 10 m
    L1, L2 = mpf(10), mpf(4)
    for t in (mpf('0.01'), mpf('0.00999999'), mpf(0), mpf(-1)):
        assert ie.transfer(ie.DIRECT, t, L1, L2, Ei) is None
        assert ie.other_leg_energy(ie.DIRECT, t, L1, L2, Ei) is None
    assert ie.transfer(ie.DIRECT, mpf('0.0100001'), L1, L2, Ei) is not None
    # indirect: the fixed leg is L2 (4 m at 1000 m/s = 0.004 s)
    assert ie.transfer(ie.INDIRECT, mpf('0.004'), L1, L2, Ei) is None
    assert ie.transfer(ie.INDIRECT, mpf('0.0040001'), L1, L2, Ei) is not None
    assert ie.transfer(ie.INDIRECT, mpf('0.01'), L1, L2, Ei) is not None


def test_the_fixed_leg_differs_between_geometries():
    E = HALF_M * mpf(10) ** 6
    assert ie.t0(ie.DIRECT, mpf(10), mpf(4), E) != ie.t0(ie.INDIRECT, mpf(10), mpf(4), E)
    # just above the indirect t0 the *incident* energy diverges, i.e. large positive transfer
    assert ie.transfer(ie.INDIRECT, mpf('0.00400001'), mpf(10), mpf(4), E) > 0
    # just above the direct t0 the *final* energy diverges, i.e. large negative transfer
    assert ie.transfer(ie.DIRECT, mpf('0.01000001'), mpf(10), mpf(4), E) < 0
