"""Hand-written cases for ref/geom.py (the C03 reference model and the shared exact rotations)."""
import os
import sys

sys.path.insert(0, os.path.dirname(os.path.dirname(os.path.abspath(__file__))))
from mc import env  # noqa: E402

env.ensure_vendor()

import scipp.constants  # noqa: E402,F401 - hp reads sc.constants

from ref import geom, hp  # noqa: E402

mpf = hp.mpf


def close(a, b, tol=mpf(10) ** -45):
    return abs(mpf(a) - mpf(b)) <= tol


def test_euclid_3_4_5_beamline():
    # source at the origin, sample 3 along z, detector 4 above the sample: a 3-4-5 triangle
    r = geom.euclid((0.0, 0.0, 0.0), (0.0, 0.0, 3.0), (0.0, 4.0, 3.0))
    assert r['incident_beam'] == [0, 0, 3]
    assert r['scattered_beam'] == [0, 4, 0]
    assert r['L1'] == 3 and r['L2'] == 4
    assert r['Ltotal_scatter'] == 7
    assert r['Ltotal_no_scatter'] == 5
    assert close(r['two_theta'], hp.PI / 2)


def test_euclid_is_translation_invariant_and_uses_the_sample():
    a = geom.euclid((1.0, 1.0, 1.0), (1.0, 1.0, 3.0), (2.0, 1.0, 4.0))
    assert a['L1'] == 2
    assert close(a['L2'], mpf(2).sqrt())
    assert close(a['two_theta'], hp.PI / 4)
    assert close(a['Ltotal_no_scatter'], mpf(10).sqrt())


def test_angle_parallel_antiparallel_and_tiny():
    assert geom.two_theta((1.0, 2.0, 3.0), (2.0, 4.0, 6.0)) == 0
    assert close(geom.two_theta((1.0, 2.0, 3.0), (-0.5, -1.0, -1.5)), hp.PI)
    # (1, 2^-40, 0) against x: angle = atan(2^-40), far below what acos(dot) can resolve
    t = geom.two_theta((1.0, 0.0, 0.0), (1.0, 2.0**-40, 0.0))
    assert close(t, hp.mpmath.atan(mpf(2) ** -40))
    assert close(geom.two_theta((1.0, 0.0, 0.0), (1.0, 1.0, 0.0)), hp.PI / 4)
    # 60 degrees between two face diagonals of the cube
    assert close(geom.two_theta((1.0, 1.0, 0.0), (0.0, 1.0, 1.0)), hp.PI / 3)


def test_angle_ignores_lengths_and_is_symmetric():
    a = geom.two_theta((1e-6, 0.0, 0.0), (0.0, 1e6, 1e6))
    b = geom.two_theta((0.0, 3.0, 3.0), (7.0, 0.0, 0.0))
    assert close(a, hp.PI / 2) and close(b, hp.PI / 2)


def test_cube_rotations_are_the_24_proper_ones():
    rots = geom.cube_rotations()
    assert len(rots) == 24
    assert rots[0] == ((0, 1), (1, 1), (2, 1))  # identity first
    mats = set()
    for r in rots:
        m = geom.cube_matrix(r)
        # determinant +1, orthogonal
        det = (
            m[0][0] * (m[1][1] * m[2][2] - m[1][2] * m[2][1])
            - m[0][1] * (m[1][0] * m[2][2] - m[1][2] * m[2][0])
            + m[0][2] * (m[1][0] * m[2][1] - m[1][1] * m[2][0])
        )
        assert det == 1
        for i in range(3):
            for j in range(3):
                assert sum(m[i][k] * m[j][k] for k in range(3)) == (1 if i == j else 0)
        mats.add(tuple(map(tuple, m)))
        assert geom.apply_cube(r, [1.5, -2.5, 4.0]) == [sum(m[i][k] * v for k, v in enumerate([1.5, -2.5, 4.0])) for i in range(3)]
    assert len(mats) == 24


def test_quaternion_to_matrix():
    # 90 degrees about z: q = (0, 0, sin 45, cos 45): x -> y, y -> -x
    s = 0.5**0.5
    m = geom.quat_to_matrix((0.0, 0.0, s, s))
    v = geom.matvec(m, [mpf(1), mpf(0), mpf(0)])
    assert close(v[0], 0, mpf(10) ** -15) and close(v[1], 1, mpf(10) ** -15) and close(v[2], 0)
    # identity, and normalisation of a non-unit quaternion
    assert geom.quat_to_matrix((0.0, 0.0, 0.0, 2.0)) == [[1, 0, 0], [0, 1, 0], [0, 0, 1]]
    # 180 degrees about x: diag(1, -1, -1)
    assert geom.quat_to_matrix((1.0, 0.0, 0.0, 0.0)) == [[1, 0, 0], [0, -1, 0], [0, 0, -1]]


def test_matmul_matvec():
    a = geom.mat([[1.0, 2.0, 0.0], [0.0, 1.0, 0.0], [0.0, 0.0, 3.0]])
    b = geom.mat([[0.0, 1.0, 0.0], [1.0, 0.0, 0.0], [0.0, 0.0, 1.0]])
    assert geom.matmul(a, b) == [[2, 1, 0], [1, 0, 0], [0, 0, 3]]
    assert geom.matvec(a, [mpf(1), mpf(1), mpf(1)]) == [3, 1, 3]
