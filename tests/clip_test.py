"""Hand-written cases for the emission-space clipping model ref/clip.py (C11)."""
from fractions import Fraction as Fr

import numpy as np

from ref import clip

ONE = Fr(1)


def P(tmin=0, tmax=1, lmin=1, lmax=2):
    return clip.Pulse(tmin, tmax, lmin, lmax)


def vset(piece):
    return set(piece.verts)


def test_alpha_is_inverse_of_3956_m_per_s_angstrom():
    a = clip.alpha_from(1.67492749804e-27, 6.62607015e-34)
    assert abs(float(1 / a) - 3956.034) < 0.001  # h/m_n = 3956.03 m/s * angstrom


def test_no_chopper_gives_the_rectangle():
    (piece,) = clip.region(P(), [], ONE)
    assert piece.verts == [(0, 1), (1, 1), (1, 2), (0, 2)]
    assert piece.labels == ['lmin', 'tmax', 'lmax', 'tmin']
    assert piece.area == 1
    assert piece.combo == ()


def test_strip_cuts_two_corners_hexagon():
    # alpha = 1, d = 1: arrival t = t0 + lam; corners arrive at 1, 2, 3, 2
    ch = clip.Chop(1, [(Fr(3, 2), Fr(5, 2))])
    (piece,) = clip.region(P(), [ch], ONE)
    h = Fr(1, 2)
    assert vset(piece) == {(h, 1), (1, 1), (1, 1 + h), (h, 2), (0, 2), (0, 1 + h)}
    assert len(piece.verts) == 6
    assert piece.area == Fr(3, 4)
    assert not piece.degenerate
    # the opening cut crosses the lam = lmin edge and the t0 = tmin edge, the closing cut the other two
    assert piece.crossed == {
        ('const_lambda_edge', 'open'),
        ('slanted_edge', 'open'),
        ('const_lambda_edge', 'close'),
        ('slanted_edge', 'close'),
    }
    assert ('open', 0, 0) in piece.labels and ('close', 0, 0) in piece.labels


def test_window_exactly_touching_first_arrival_is_a_single_point():
    ch = clip.Chop(1, [(0, 1)])  # closes exactly when the fastest/earliest neutron arrives
    (piece,) = clip.region(P(), [ch], ONE)
    assert piece.verts == [(0, 1)]
    assert piece.degenerate and piece.area == 0
    assert clip.transmitted(0, 1, P(), [ch], ONE)
    assert not clip.transmitted(Fr(1, 1000), 1, P(), [ch], ONE)


def test_window_touching_at_distance_zero_is_a_segment():
    ch = clip.Chop(0, [(-1, 0)])  # at the source: closes at t0 = tmin -> the whole left edge
    (piece,) = clip.region(P(), [ch], ONE)
    assert vset(piece) == {(0, 1), (0, 2)}
    assert piece.degenerate


def test_missing_windows_give_nothing():
    assert clip.region(P(), [clip.Chop(1, [(5, 6)])], ONE) == []
    assert clip.region(P(), [clip.Chop(1, [(-2, Fr(1, 2))])], ONE) == []
    assert clip.region(P(), [clip.Chop(1, [])], ONE) == []


def test_containing_window_changes_nothing():
    (piece,) = clip.region(P(), [clip.Chop(1, [(0, 10)])], ONE)
    assert vset(piece) == {(0, 1), (1, 1), (1, 2), (0, 2)}
    assert piece.crossed == frozenset()


def test_two_windows_sharing_an_endpoint_split_the_area():
    ch = clip.Chop(1, [(Fr(3, 2), 2), (2, Fr(5, 2))])
    pieces = clip.region(P(), [ch], ONE)
    assert [p.combo for p in pieces] == [(0,), (1,)]
    assert [p.area for p in pieces] == [Fr(3, 8), Fr(3, 8)]
    # the shared line t0 + lam = 2 is the diagonal (1,1)-(0,2), in both pieces
    assert {(1, 1), (0, 2)} <= vset(pieces[0]) & vset(pieces[1])


def test_unsorted_windows_same_pieces():
    a = clip.region(P(), [clip.Chop(1, [(Fr(3, 2), 2), (2, Fr(5, 2))])], ONE)
    b = clip.region(P(), [clip.Chop(1, [(2, Fr(5, 2)), (Fr(3, 2), 2)])], ONE)
    assert {frozenset(p.verts) for p in a} == {frozenset(p.verts) for p in b}


def test_two_choppers_by_hand():
    # d=1: 1.5 <= t0+lam ; d=2: t0+2lam <= 3.5   (alpha=1), pulse [0,1]x[1,2]
    c1 = clip.Chop(1, [(Fr(3, 2), 10)])
    c2 = clip.Chop(2, [(-10, Fr(7, 2))])
    (piece,) = clip.region(P(), [c1, c2], ONE)
    h = Fr(1, 2)
    # lines: t0+lam=1.5 meets lam=1 at (.5,1), t0=0 at (0,1.5); t0+2lam=3.5 meets t0=1 at (1,1.25), t0=0 at (0,1.75)
    assert vset(piece) == {(h, 1), (1, 1), (1, Fr(5, 4)), (0, Fr(7, 4)), (0, 1 + h)}
    assert piece.area == 1 - Fr(1, 8) - (Fr(3, 4) + Fr(1, 4)) / 2 * 1
    # upto: only the first chopper counts below d = 2
    (q,) = clip.region(P(), [c1, c2], ONE, upto=Fr(3, 2))
    assert q.area == Fr(7, 8) and q.combo == (0, None)


def test_region_agrees_with_vertex_enumeration_and_is_order_independent():
    a = Fr(1, 3)
    pulse = clip.Pulse(0, 3, Fr(9, 5), Fr(36, 5))
    c1 = clip.Chop(Fr(63, 10), [(4, 9), (9, 11), (Fr(25, 2), 14)])
    c2 = clip.Chop(10, [(7, 15), (16, 30)])
    c3 = clip.Chop(10, [(0, 20)])
    for order in ([c1, c2, c3], [c3, c2, c1], [c2, c1, c3]):
        pieces = clip.region(pulse, order, a)
        assert pieces
        seen = set()
        for p in pieces:
            assert vset(p) == clip.enumerate_vertices(pulse, order, p.combo, a)
            seen.add(frozenset(p.verts))
        if order[0] is c1:
            ref = seen
            total = sum(p.area for p in pieces)
        assert seen == ref
        assert sum(p.area for p in pieces) == total
    # every combination that is not reported is empty (at most boundary points)
    got = {p.combo for p in clip.region(pulse, [c1, c2, c3], a)}
    for combo in [(i, j, 0) for i in range(3) for j in range(2)]:
        if combo not in got:
            assert clip.enumerate_vertices(pulse, [c1, c2, c3], combo, a) == set()


def test_pieces_agree_with_pointwise_definition():
    a = Fr(1, 3)
    pulse = clip.Pulse(0, 3, Fr(9, 5), Fr(36, 5))
    chs = [clip.Chop(Fr(63, 10), [(4, 9), (9, 11)]), clip.Chop(10, [(7, 15), (16, 30)])]
    pieces = clip.region(pulse, chs, a)
    polys = [([float(x) for x, _ in p.verts], [float(y) for _, y in p.verts]) for p in pieces]
    n = 0
    for i in range(1, 30):
        for j in range(1, 30):
            t0 = Fr(3 * i, 30) + Fr(1, 977)
            lam = Fr(9, 5) + Fr(27 * j, 5 * 30) + Fr(1, 991)
            want = clip.transmitted(t0, lam, pulse, chs, a)
            (got,), _ = clip.points_in_polygons([float(t0)], [float(lam)], polys)
            assert bool(got) == want
            n += want
    assert 50 < n < 800


def test_arrival_shear_preserves_area():
    a = Fr(1, 3)
    (piece,) = clip.region(P(), [clip.Chop(1, [(Fr(1, 2), Fr(9, 10))])], a)
    arr = clip.arrival(piece.verts, a, 80)
    assert clip.area(arr) == piece.area
    assert arr[0] == (piece.verts[0][0] + a * piece.verts[0][1] * 80, piece.verts[0][1])


def test_classify_points_matches_exact_predicate_outside_the_band():
    a = clip.alpha_from(1.67492749804e-27, 6.62607015e-34)
    pulse = clip.Pulse(0.0, 0.003, 1.8, 7.2)
    chs = [clip.Chop(6.3, [(0.004, 0.009), (0.009, 0.011)]), clip.Chop(10.0, [(0.007, 0.015)])]
    t0 = np.linspace(0.0, 0.003, 23)[:, None] + np.zeros((1, 31))
    lam = np.linspace(1.8, 7.2, 31)[None, :] + np.zeros((23, 1))
    ok, dc = clip.classify_points(t0, lam, pulse, chs, a)
    assert dc[0].all() and dc[-1].all() and dc[:, 0].all() and dc[:, -1].all()  # on the pulse boundary
    assert not dc[1:-1, 1:-1].all()
    cnt = 0
    for i in range(23):
        for j in range(31):
            if not dc[i, j]:
                assert bool(ok[i, j]) == clip.transmitted(float(t0[i, j]), float(lam[i, j]), pulse, chs, a)
                cnt += ok[i, j]
    assert cnt > 20
    # upto: ignore the second chopper
    ok1, _ = clip.classify_points(t0, lam, pulse, chs, a, upto=Fr(7))
    assert ok1.sum() > ok.sum()


def test_classify_points_marks_window_edges_as_dont_care():
    pulse = clip.Pulse(0, 1, 1, 2)
    ch = clip.Chop(1, [(Fr(3, 2), Fr(5, 2))])
    ok, dc = clip.classify_points([0.25, 0.25 + 1e-12, 0.3], [1.25, 1.25, 1.25], pulse, [ch], ONE)
    assert list(dc) == [True, True, False]
    assert bool(ok[2])


def test_points_in_polygons():
    sq = ([0.0, 1.0, 1.0, 0.0], [0.0, 0.0, 1.0, 1.0])
    tri = ([2.0, 3.0, 2.0], [0.0, 0.0, 1.0])
    x = [0.5, 1.5, 2.25, 2.9, -1.0, 0.5]
    y = [0.5, 0.5, 0.25, 0.9, 0.0, 1.0]  # (-1, 0): ray runs through vertices/along an edge
    inside, count = clip.points_in_polygons(x, y, [sq, tri, sq])
    assert list(inside) == [True, False, True, False, False, False]
    assert list(count) == [2, 0, 1, 0, 0, 0]
    # degenerate polygons contain nothing
    inside, _ = clip.points_in_polygons([0.5], [0.5], [([0.5, 0.5, 0.5], [0.5, 0.5, 0.5]), ([0.0, 1.0], [0.0, 1.0])])
    assert not inside[0]


def test_float_area():
    assert clip.float_area([0.0, 2.0, 2.0, 0.0], [0.0, 0.0, 0.5, 0.5]) == 1.0
    assert clip.float_area([0.0, 2.0, 2.0], [0.0, 0.0, 0.0]) == 0.0
    assert clip.float_area([0.0, 0.0, 2.0, 2.0], [0.0, 0.5, 0.5, 0.0]) == 1.0  # orientation does not matter
