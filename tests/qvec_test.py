"""Hand-written cases for ref/qvec.py (the C08 reference model)."""
import os
import sys

sys.path.insert(0, os.path.dirname(os.path.dirname(os.path.abspath(__file__))))
from mc import env  # noqa: E402

env.ensure_vendor()

import scipp.constants  # noqa: E402,F401 - hp reads sc.constants

from ref import geom, hp, qvec  # noqa: E402

mpf = hp.mpf


def close(a, b, tol=mpf(10) ** -40):
    return abs(mpf(a) - mpf(b)) <= tol


def test_q_vec_right_angle_scattering():
    # beam along z scattered into +x at lambda = 2: Q = pi * (e_z - e_x)
    q = qvec.q_vec(2.0, (0.0, 0.0, 5.0), (0.25, 0.0, 0.0))
    assert close(q[0], -hp.PI) and q[1] == 0 and close(q[2], hp.PI)
    assert close(hp.norm(q), qvec.q_scalar(2.0, (0.0, 0.0, 5.0), (0.25, 0.0, 0.0)))
    assert close(qvec.q_scalar(2.0, (0.0, 0.0, 5.0), (0.25, 0.0, 0.0)), 4 * hp.PI * hp.mpmath.sin(hp.PI / 4) / 2)


def test_q_vec_forward_and_back_scattering():
    assert qvec.q_vec(1.0, (0.0, 0.0, 1.0), (0.0, 0.0, 8.0)) == [0, 0, 0]
    q = qvec.q_vec(0.5, (0.0, 3.0, 0.0), (0.0, -1.0, 0.0))
    assert q[0] == 0 and q[2] == 0 and close(q[1], 8 * hp.PI)  # 2k with k = 2pi/0.5


def test_ub_is_u_times_b_not_b_times_u():
    u = [[0.0, -1.0, 0.0], [1.0, 0.0, 0.0], [0.0, 0.0, 1.0]]
    b = [[1.0, 0.0, 0.0], [0.0, 2.0, 0.0], [0.0, 0.0, 3.0]]
    assert qvec.ub(u, b) == [[0, -2, 0], [1, 0, 0], [0, 0, 3]]


def test_hkl_residual_and_exact_solution():
    # cubic lattice a = 2 (B = I/2), no rotation: Q = 2pi/a * hkl = pi * hkl
    ident = geom.mat([[1.0, 0, 0], [0, 1.0, 0], [0, 0, 1.0]])
    b = geom.mat([[0.5, 0, 0], [0, 0.5, 0], [0, 0, 0.5]])
    q = (float(hp.PI), 0.0, float(-2 * hp.PI))
    res, qn = qvec.hkl_residual(ident, b, (1.0, 0.0, -2.0), q)
    assert res < mpf(10) ** -15 and close(qn, hp.PI * mpf(5).sqrt(), mpf(10) ** -15)
    h = qvec.hkl_exact(ident, b, q)
    assert close(h[0], 1, mpf(10) ** -15) and close(h[1], 0) and close(h[2], -2, mpf(10) ** -15)
    # a wrong hkl leaves a residual of 2pi * |UB * error|
    res, _ = qvec.hkl_residual(ident, b, (1.0, 1.0, -2.0), q)
    assert close(res, hp.PI, mpf(10) ** -15)


def test_hkl_with_rotation_order():
    # R = 90 deg about z applied AFTER UB: 2pi R UB hkl
    r = geom.quat_to_matrix((0.0, 0.0, 0.5**0.5, 0.5**0.5))
    ub = geom.mat([[1.0, 0, 0], [0, 2.0, 0], [0, 0, 1.0]])
    # hkl = (1, 0, 0): UB hkl = (1, 0, 0) -> rotated to (0, 1, 0)
    res, _ = qvec.hkl_residual(r, ub, (1.0, 0.0, 0.0), (0.0, float(2 * hp.PI), 0.0))
    assert res < mpf(10) ** -15
    # with the opposite order (UB R) the answer would be (0, 2, 0): must NOT match
    res, _ = qvec.hkl_residual(r, ub, (1.0, 0.0, 0.0), (0.0, float(4 * hp.PI), 0.0))
    assert res > 6
    h = qvec.hkl_exact(r, ub, (0.0, float(2 * hp.PI), 0.0))
    assert close(h[0], 1, mpf(10) ** -15) and close(h[1], 0, mpf(10) ** -15)


def test_hkl_residual_with_preformed_product():
    r = geom.quat_to_matrix((0.0, 0.0, 0.5**0.5, 0.5**0.5))
    ub = geom.mat([[1.0, 0, 0], [0, 2.0, 0], [0, 0, 1.0]])
    q = (0.3, float(2 * hp.PI), -1.0)
    a = qvec.hkl_residual(r, ub, (1.0, 0.5, 0.0), q)
    b = qvec.hkl_residual_a(geom.matmul(r, ub), (1.0, 0.5, 0.0), q)
    assert a == b
