"""Hand-written cases for ref/peakshape.py (reference model of C16, closed forms used by C17)."""
import math
import os
import sys
from fractions import Fraction

sys.path.insert(0, os.path.dirname(os.path.dirname(os.path.abspath(__file__))))
from mc import env  # noqa: E402

env.ensure_vendor()

import numpy as np  # noqa: E402

from ref import peakshape as ps  # noqa: E402


def test_textbook_values():
    # standard normal density at 0 and 1; Cauchy density at 0 and 1
    assert ps.gaussian(0.0, 1.0, 0.0, 1.0) == 0.3989422804014327
    assert abs(ps.gaussian(1.0, 1.0, 0.0, 1.0) - 0.24197072451914337) < 1e-16
    assert abs(ps.lorentzian(0.0, 1.0, 0.0, 1.0) - 1 / math.pi) < 1e-16
    assert abs(ps.lorentzian(1.0, 1.0, 0.0, 1.0) - 1 / (2 * math.pi)) < 1e-16
    # amplitude scales, loc shifts, scale stretches and renormalises
    assert abs(ps.gaussian(5.0, -3.0, 3.0, 2.0) - (-3.0 / 2.0) * 0.24197072451914337) < 1e-15
    assert abs(ps.lorentzian(5.0, -3.0, 3.0, 2.0) - (-3.0 / 2.0) / (2 * math.pi)) < 1e-15


def test_hp_forms_agree_with_float_forms():
    for x in (-2.0, 0.3, 7.5):
        assert abs(float(ps.gaussian_hp(x, 2.0, 0.5, 1.5)) - ps.gaussian(x, 2.0, 0.5, 1.5)) < 1e-15
        assert abs(float(ps.lorentzian_hp(x, 2.0, 0.5, 1.5)) - ps.lorentzian(x, 2.0, 0.5, 1.5)) < 1e-15
        assert abs(float(ps.pseudo_voigt_hp(x, 2.0, 0.5, 1.5, 0.3)) - ps.pseudo_voigt(x, 2.0, 0.5, 1.5, 0.3)) < 1e-15


def test_fwhm_constants():
    assert abs(ps.fwhm('gaussian', 1.0) - 2.3548200450309493) < 1e-15
    assert ps.fwhm('lorentzian', 0.25) == 0.5
    assert ps.fwhm('pseudo_voigt', 3.0) == 6.0
    # and they are what they claim: half of the peak value at +/- FWHM/2 (50 digits)
    h = ps.mpf(ps.fwhm('gaussian', 1.0)) / 2
    assert abs(ps.gaussian_hp(h, 1, 0, 1) / ps.gaussian_hp(0, 1, 0, 1) - ps.mpf('0.5')) < 1e-15
    assert ps.lorentzian_hp(2, 1, 0, 2) / ps.lorentzian_hp(0, 1, 0, 2) == ps.mpf('0.5')
    for f in (0, 0.25, 1):
        assert abs(ps.pseudo_voigt_hp(3, 1, 0, 3, f) / ps.pseudo_voigt_hp(0, 1, 0, 3, f) - ps.mpf('0.5')) < 1e-15


def test_pseudo_voigt_is_the_mixture():
    x = np.array([-1.0, 0.0, 0.5, 4.0])
    assert np.array_equal(ps.pseudo_voigt(x, 2.0, 0.5, 0.75, 1.0), ps.lorentzian(x, 2.0, 0.5, 0.75))
    assert np.allclose(ps.pseudo_voigt(x, 2.0, 0.5, 0.75, 0.0), ps.gaussian(x, 2.0, 0.5, 0.75 / 1.1774100225154747), rtol=1e-15)
    mid = ps.pseudo_voigt(x, 2.0, 0.5, 0.75, 0.5)
    assert np.allclose(mid, 0.5 * (ps.pseudo_voigt(x, 2.0, 0.5, 0.75, 1.0) + ps.pseudo_voigt(x, 2.0, 0.5, 0.75, 0.0)), rtol=1e-15)


def test_tan_rule_integrates_known_densities():
    for mu, h in ((0.0, 1.0), (2.5, 1e-3), (-1e3, 7.0), (0.0, 1e6)):
        x, w = ps.tan_rule(mu, h)
        assert len(x) == len(w) == 4096
        # Cauchy density of half width h: integrand is constant after the substitution
        assert abs(ps.integrate(ps.lorentzian(x, 1.0, mu, h), w) - 1.0) < 1e-13
        # normal density whose HWHM is h
        assert abs(ps.integrate(ps.gaussian(x, 1.0, mu, h / ps.SQRT_2LN2), w) - 1.0) < 1e-13
        # a normal density three times wider / narrower than the substitution assumes
        assert abs(ps.integrate(ps.gaussian(x, -4.0, mu, 3 * h), w) + 4.0) < 1e-12
        assert abs(ps.integrate(ps.gaussian(x, -4.0, mu, h / 3), w) + 4.0) < 1e-12
    # a wrong normalisation is seen
    x, w = ps.tan_rule(0.0, 1.0)
    assert abs(ps.integrate(ps.lorentzian(x, 1.0, 0.0, 1.0) / 2, w) - 0.5) < 1e-13
    # x^2 * normal density integrates to sigma^2 (checks the weights, not only the mass)
    assert abs(ps.integrate(x * x * ps.gaussian(x, 1.0, 0.0, 0.5), w) - 0.25) < 1e-12


def test_integral_tolerance_grows_with_conditioning_only():
    assert ps.integral_tolerance(0.0, 1e-6) == 1e-12
    assert 1e-12 < ps.integral_tolerance(2.5, 1.0) < 1.1e-12
    assert 1e-6 < ps.integral_tolerance(-1e3, 1e-6) < 3e-6


def test_symmetric_offset_is_exact_and_close():
    import pytest

    for mu in (0.0, 2.5, -1e3, 1e6, 2.0**-10, -1.0):
        for target in (1e-9, 1e-6, 0.3, 1.0, 1e3, 3e7):
            try:
                d = ps.symmetric_offset(mu, target)
            except ValueError:
                assert target < 4 * math.ulp(mu)  # only below the float grid around mu
                continue
            assert d > 0
            assert Fraction(mu + d) == Fraction(mu) + Fraction(d)
            assert Fraction(mu - d) == Fraction(mu) - Fraction(d)
            assert abs(d - target) <= max(2 * math.ulp(mu), 2.0**-50 * target)
    with pytest.raises(ValueError):
        ps.symmetric_offset(1e-3, 0.3)  # 1e-3 is not dyadic: 1e-3 + d is never exact for d ~ 0.3
    assert ps.symmetric_offset(0.0, 0.1) == 0.1
    assert ps.symmetric_offset(1.0, 0.5) == 0.5


def test_poly_hp():
    val, cond = ps.poly_hp([1.0, 2.0, 3.0], 2.0)
    assert val == 17 and cond == 17
    val, cond = ps.poly_hp([1.0, -2.0, 1.0], 1.0)  # (x-1)^2 at 1
    assert val == 0 and cond == 4
    val, cond = ps.poly_hp([0.0, 0.0, 0.0, -2.5], -2.0)
    assert val == 20 and cond == 20
    assert np.array_equal(ps.polynomial([2.0, -1.0], [1.0, 2.0, 3.0]), [17.0, 2.0])


def test_displacement_and_half_max_tolerance():
    assert ps.displacement(1.0, 1.5, 0.5) == 0.0
    assert ps.displacement(1.0, 0.5, 0.5) == 0.0
    assert ps.displacement(1.0, 1.75, 0.5) == 0.25
    assert ps.half_max_tolerance(1.0, 1.5, 0.5) == 1e-12
    # the tolerance really bounds the effect of the displacement on a Gaussian
    mu, s = 1e3, 1e-5
    h = ps.fwhm('gaussian', s) / 2
    x = mu + h
    got = float(ps.gaussian_hp(x, 1, mu, s) / ps.gaussian_hp(mu, 1, mu, s))
    assert abs(got - 0.5) / 0.5 <= ps.half_max_tolerance(mu, x, h)
    assert abs(got - 0.5) / 0.5 > 1e-12  # and is needed


def test_ordering_classes():
    for n in (4, 7, 83):
        cl = ps.ordering_classes(n)
        for name, idx in cl.items():
            assert ps.is_permutation_with_repeats(idx, n), name
            if name not in ('all_equal_to_middle',):
                assert set(idx.tolist()) == set(range(n)), name  # every point is still evaluated
        assert cl['descending'].tolist() == list(range(n - 1, -1, -1))
        # both end points on the same side, interior holds the rest
        assert sorted((cl['low_ends'][0], cl['low_ends'][-1])) == [0, 1]
        assert sorted((cl['high_ends'][0], cl['high_ends'][-1])) == [n - 2, n - 1]
        assert sorted((cl['tiled_low_ends'][0], cl['tiled_low_ends'][-1])) == [0, 1]
        assert len(cl['each_twice']) == 2 * n and cl['each_twice'][0] == cl['each_twice'][1]
        assert len(set(cl['interleaved'].tolist())) == n
        assert abs(cl['centre_out'][0] - (n - 1) / 2) <= 0.5 and cl['centre_out'][-1] in (0, n - 1)
    assert ps.ordering_classes(7)['low_ends'].tolist() == [0, 2, 3, 4, 5, 6, 1]
    assert ps.ordering_classes(7)['high_ends'].tolist() == [6, 0, 1, 2, 3, 4, 5]


def test_model_state():
    s = ps.ModelState(['amplitude', 'loc'], 'p_')
    assert s.param_names == {'p_amplitude', 'p_loc'}
    t = s.after('with_prefix', 'q')
    assert t.param_names == {'qamplitude', 'qloc'} and s.prefix == 'p_'
    for op in ('call', 'names', 'add', 'guess', 'fwhm', 'copy', 'deepcopy', 'bounds'):
        assert s.after(op).param_names == s.param_names
    assert t.after('with_prefix', '').param_names == {'amplitude', 'loc'}
    assert s.rename({'loc': 1}) == {'p_loc': 1}
