"""Hand-written cases for ref/peakfit.py (reference model of C17)."""
import math
import os
import sys

sys.path.insert(0, os.path.dirname(os.path.dirname(os.path.abspath(__file__))))
from mc import env  # noqa: E402

env.ensure_vendor()

import numpy as np  # noqa: E402

from ref import peakfit as pf  # noqa: E402
from ref import peakshape as ps  # noqa: E402


def test_noise_table_is_fixed_and_normal_like():
    a, b = pf.noise(200), pf.noise(200)
    assert np.array_equal(a, b)
    assert np.array_equal(pf.noise(5, offset=3), pf.noise(8)[3:])
    # first entry: golden-ratio point 0.6180339887 -> Phi^-1 = 0.3003
    assert abs(pf.noise(1)[0] - 0.30031) < 1e-4
    for n in (101, 200):
        z = pf.noise(n)
        assert abs(z.mean()) < 0.1
        assert abs(z.std() - 1.0) < 0.1
        assert abs(np.corrcoef(z[:-1], z[1:])[0, 1]) < 0.3
        assert np.abs(z).max() < 4.0
    # writing into the returned array does not touch the table
    a[:] = 0
    assert pf.noise(3)[0] != 0


def test_in_window_is_half_open():
    x = [0.0, 1.0, 2.0, 3.0]
    assert pf.in_window(x, 1.0, 3.0).tolist() == [False, True, True, False]
    assert pf.in_window(x, 0.5, 0.6).tolist() == [False] * 4
    assert pf.in_window(x, 2.0, 2.0).tolist() == [False] * 4
    assert pf.in_window(x, 5.0, 1.0).tolist() == [False] * 4
    assert pf.on_boundary(x, 1.0, 3.0).tolist() == [False, True, False, True]


def test_auto_window_rules():
    ok = pf.auto_window_faults(0.0, 10.0, [2.0, 5.0, 9.0], [(1.0, 3.0), (4.0, 6.0), (8.0, 10.0)], 1 / 3)
    assert ok == []
    # outside the data range
    f = pf.auto_window_faults(0.0, 10.0, [12.0, 15.0], [(10.0, 10.0), (13.0, 10.0)], 1 / 3)
    assert [r for r, _, _ in f] == ['outside_data_range'] and f[0][1] == 1
    # an empty window at the edge is fine for an estimate outside the data
    assert pf.auto_window_faults(0.0, 10.0, [12.0], [(10.0, 10.0)], 1 / 3) == []
    # in-range estimate not contained
    f = pf.auto_window_faults(0.0, 10.0, [5.0], [(5.5, 6.0)], 1 / 3)
    assert [r for r, _, _ in f] == ['estimate_not_contained']
    # too close to the left neighbour: gap 3, must start at >= 2 + 1 = 3
    f = pf.auto_window_faults(0.0, 10.0, [2.0, 5.0], [(1.0, 3.0), (2.9, 6.0)], 1 / 3)
    assert [r for r, _, _ in f] == ['too_close_to_left_neighbour']
    assert pf.auto_window_faults(0.0, 10.0, [2.0, 5.0], [(1.0, 3.0), (3.0, 6.0)], 1 / 3) == []
    # too close to the right neighbour: must end at <= 5 - 1 = 4
    f = pf.auto_window_faults(0.0, 10.0, [2.0, 5.0], [(1.0, 4.5), (4.0, 6.0)], 1 / 3)
    assert [r for r, _, _ in f] == ['too_close_to_right_neighbour']
    # per-side rule: unequal gaps (2 and 6); window 1 may reach 4 + ... left limit 2+2/3, right limit 10-2
    assert pf.auto_window_faults(0.0, 12.0, [2.0, 4.0, 10.0], [(1.0, 3.0), (2.7, 7.9), (9.0, 11.0)], 1 / 3) == []
    f = pf.auto_window_faults(0.0, 12.0, [2.0, 4.0, 10.0], [(1.0, 3.0), (2.7, 8.5), (9.0, 11.0)], 1 / 3)
    assert [r for r, _, _ in f] == ['too_close_to_right_neighbour']
    assert pf.auto_window_faults(0.0, 1.0, [0.5], [], 0.3)[0][0] == 'count'


def test_statistics_by_hand():
    # four points, residuals 1, -1, 2, 0 with variances 1, 1, 4, 1 -> chi2 = 3; k = 2 -> dof 2
    y = [1.0, 2.0, 5.0, 4.0]
    f = [0.0, 3.0, 3.0, 4.0]
    s = pf.statistics(y, [1.0, 1.0, 4.0, 1.0], f, 2)
    assert s['chi2'] == 3.0 and s['dof'] == 2 and s['n'] == 4
    assert s['red_chisq'] == 1.5
    assert abs(s['p_value'] - math.exp(-1.5)) < 1e-15  # chi2 with 2 dof: survival = exp(-x/2)
    assert abs(s['aic'] - (4 * math.log(0.75) + 4)) < 1e-15
    # no degrees of freedom: nothing to compare
    assert 'red_chisq' not in pf.statistics(y, [1.0] * 4, f, 4)
    assert 'red_chisq' not in pf.statistics(y, [1.0] * 4, f, 5)


def test_statistics_faults():
    ref = pf.statistics([1.0, 2.0, 5.0, 4.0], [1.0, 1.0, 4.0, 1.0], [0.0, 3.0, 3.0, 4.0], 2)
    good = {'red_chisq': 1.5, 'p_value': math.exp(-1.5), 'aic': 4 * math.log(0.75) + 4}
    assert pf.statistics_faults(good, ref) == []
    # dof off by one in the p-value only: chi2(1).sf(3) = 0.0833
    bad = dict(good, p_value=0.08326451666355042)
    assert [n for n, _ in pf.statistics_faults(bad, ref)] == ['p_value']
    bad = dict(good, aic=good['aic'] + 2)
    assert [n for n, _ in pf.statistics_faults(bad, ref)] == ['aic']
    bad = dict(good, red_chisq=1.0)
    assert [n for n, _ in pf.statistics_faults(bad, ref)] == ['red_chisq']
    bad = dict(good, red_chisq=float('nan'))
    assert [n for n, _ in pf.statistics_faults(bad, ref)] == ['red_chisq']


def test_model_values_and_names():
    popt = {'bkg_a0': 1.0, 'bkg_a1': 2.0, 'peak_amplitude': 3.0, 'peak_loc': 0.0, 'peak_scale': 1.0}
    v = pf.model_values('gaussian', 1, popt, [0.0, 1.0])
    assert abs(v[0] - (1.0 + 3 * 0.3989422804014327)) < 1e-15
    assert abs(v[1] - (3.0 + 3 * 0.24197072451914337)) < 1e-15
    assert pf.n_params('gaussian', 1) == 5 and pf.n_params('pseudo_voigt', 2) == 7
    assert pf.expected_param_names('lorentzian', 2) == {'bkg_a0', 'bkg_a1', 'bkg_a2', 'peak_amplitude', 'peak_loc', 'peak_scale'}


def test_requirement_table():
    x = np.linspace(0.0, 2.0, 21)  # spacing 0.1
    base = {'min_p_value': 0.01, 'max_peak_width_factor': 1.0, 'min_peak_width_factor': 1.0}
    popt = {'peak_amplitude': 1.0, 'peak_loc': 1.0, 'peak_scale': 0.2}
    assert pf.requirement_faults('gaussian', popt, 0.5, x, 0.0, 2.0, **base) == []
    assert [n for n, _ in pf.requirement_faults('gaussian', popt, 0.001, x, 0.0, 2.0, **base)] == ['p_value_below_minimum']
    assert [n for n, _ in pf.requirement_faults('gaussian', popt, float('nan'), x, 0.0, 2.0, **base)] == ['p_value_below_minimum']
    neg = dict(popt, peak_amplitude=-1.0)
    assert [n for n, _ in pf.requirement_faults('gaussian', neg, 0.5, x, 0.0, 2.0, **base)] == ['negative_amplitude']
    # gaussian scale 0.2 -> FWHM 0.471: wider than 0.2 * window width 2.0
    req = dict(base, max_peak_width_factor=0.2)
    assert [n for n, _ in pf.requirement_faults('gaussian', popt, 0.5, x, 0.0, 2.0, **req)] == ['wider_than_allowed']
    # lorentzian scale 0.2 -> FWHM 0.4 = 0.2 * 2.0: allowed
    assert pf.requirement_faults('lorentzian', popt, 0.5, x, 0.0, 2.0, **req) == []
    # narrower than 5 coordinate spacings
    req = dict(base, min_peak_width_factor=5.0)
    assert [n for n, _ in pf.requirement_faults('gaussian', popt, 0.5, x, 0.0, 2.0, **req)] == ['narrower_than_allowed']
    # non-uniform grid: the smaller adjacent spacing counts (weakest reading)
    xn = np.array([0.0, 0.9, 1.0, 1.5, 2.0])
    req = dict(base, min_peak_width_factor=4.0)  # 4 * 0.1 = 0.4 <= 0.471 passes; 4 * 0.5 would not
    assert pf.requirement_faults('gaussian', popt, 0.5, xn, 0.0, 2.0, **req) == []


def test_removal_reference():
    x = np.linspace(0.0, 10.0, 11)
    y = np.full(11, 7.0)
    popt = {'peak_amplitude': 2.0, 'peak_loc': 5.0, 'peak_scale': 1.0}
    pk = ps.gaussian(x, 2.0, 5.0, 1.0)
    m = pf.in_window(x, 2.5, 7.5)
    out = y.copy()
    out[m] -= pk[m]
    assert pf.removal_faults(x, y, out, [('gaussian', popt, 2.5, 7.5)]) == []
    # nothing removed although marked successful
    assert [k for k, _ in pf.removal_faults(x, y, y, [('gaussian', popt, 2.5, 7.5)])] == ['not_input_minus_peak']
    # removed everywhere
    assert [k for k, _ in pf.removal_faults(x, y, y - pk, [('gaussian', popt, 2.5, 7.5)])] == ['changed_outside_windows']
    # background subtracted as well
    wrong = y.copy()
    wrong[m] -= pk[m] + 1.0
    assert [k for k, _ in pf.removal_faults(x, y, wrong, [('gaussian', popt, 2.5, 7.5)])] == ['not_input_minus_peak']
    # no successful result: output must be the input
    assert pf.removal_faults(x, y, y, []) == []
    assert [k for k, _ in pf.removal_faults(x, y, y + 1e-12, [])] == ['changed_outside_windows']
    # two overlapping windows: both peaks come off in the overlap; bound points are dont-care
    popt2 = {'peak_amplitude': 1.0, 'peak_loc': 7.0, 'peak_scale': 0.5}
    pk2 = ps.lorentzian(x, 1.0, 7.0, 0.5)
    m2 = pf.in_window(x, 6.0, 9.0)
    both = y.copy()
    both[m] -= pk[m]
    both[m2] -= pk2[m2]
    assert pf.removal_faults(x, y, both, [('gaussian', popt, 2.5, 7.5), ('lorentzian', popt2, 6.0, 9.0)]) == []
    closed = both.copy()
    closed[9] -= pk2[9]  # x = 9.0 is the upper bound of [6, 9): it is outside, touching it is a fault
    assert [k for k, _ in pf.removal_faults(x, y, closed, [('gaussian', popt, 2.5, 7.5), ('lorentzian', popt2, 6.0, 9.0)])] == ['changed_on_upper_bound']
    # the lower bound belongs to the window: x = 6.0 must have the second peak removed
    lower_open = both.copy()
    lower_open[6] += pk2[6]
    assert [k for k, _ in pf.removal_faults(x, y, lower_open, [('gaussian', popt, 2.5, 7.5), ('lorentzian', popt2, 6.0, 9.0)])] == ['not_input_minus_peak']
    # adjacent windows sharing the edge 5.0: the shared point belongs to the upper window only
    a = ('gaussian', popt, 2.0, 5.0)
    b = ('lorentzian', popt2, 5.0, 8.0)
    adj = y.copy()
    ma, mb = pf.in_window(x, 2.0, 5.0), pf.in_window(x, 5.0, 8.0)
    assert not ma[5] and mb[5]
    adj[ma] -= pk[ma]
    adj[mb] -= pk2[mb]
    assert pf.removal_faults(x, y, adj, [a, b]) == []
    twice = adj.copy()
    twice[5] -= pk[5]  # both peaks taken off the shared point
    assert [k for k, _ in pf.removal_faults(x, y, twice, [a, b])] == ['not_input_minus_peak']
    # window ending exactly at the last data point: that point stays
    last = y.copy()
    ml = pf.in_window(x, 7.0, 10.0)
    assert not ml[10]
    last[ml] -= pk2[ml]
    assert pf.removal_faults(x, y, last, [('lorentzian', popt2, 7.0, 10.0)]) == []
    last[10] -= pk2[10]
    assert [k for k, _ in pf.removal_faults(x, y, last, [('lorentzian', popt2, 7.0, 10.0)])] == ['changed_on_upper_bound']
