"""Fast reset of a module's module-level state (harness side).

``snapshot(mod)`` records, once, every module-level name with a deep copy of plain mutable
containers; ``reset(mod)`` removes names added since, rebinds names that were rebound
(e.g. a ``_last_result = None`` slot), restores the content of dict / list / set objects
in place and clears every ``functools`` cache.  Equivalent to ``importlib.reload`` for the
purpose of "start from the state right after import", at a few microseconds per call.
"""
from __future__ import annotations

import copy
import types

_SNAP = {}


def snapshot(mod):
    if mod.__name__ in _SNAP:
        return
    names = {}
    for k, v in vars(mod).items():
        if k.startswith('__') and k.endswith('__'):
            continue  # __builtins__, __doc__, ...: not module state
        if isinstance(v, dict | list | set):
            names[k] = (v, copy.deepcopy(v))
        else:
            names[k] = (v, None)
    _SNAP[mod.__name__] = names


def reset(mod):
    snapshot(mod)
    names = _SNAP[mod.__name__]
    d = vars(mod)
    for k in [k for k in d if k not in names and not (k.startswith('__') and k.endswith('__'))]:
        del d[k]
    for k, (obj, content) in names.items():
        if d.get(k, None) is not obj:
            d[k] = obj
        if content is not None:
            if isinstance(obj, dict):
                obj.clear()
                obj.update(copy.deepcopy(content))
            elif isinstance(obj, list):
                obj[:] = copy.deepcopy(content)
            elif isinstance(obj, set):
                obj.clear()
                obj.update(copy.deepcopy(content))
        if hasattr(obj, 'cache_clear') and not isinstance(obj, types.ModuleType):
            obj.cache_clear()
        # caches on methods of classes defined in the module
        if isinstance(obj, type) and getattr(obj, '__module__', None) == mod.__name__:
            for attr in vars(obj).values():
                f = getattr(attr, '__func__', attr)
                if hasattr(f, 'cache_clear'):
                    f.cache_clear()
