"""Deep, bitwise fingerprints of arbitrary Python/scipp objects (harness side).

``fp(obj)`` returns a nested tuple of hashable primitives that captures everything a
caller can observe: values and variances bit for bit, unit, dtype, dims, shape, coords,
masks, bin constituents, container contents, dataclass fields / ``__dict__`` / slots.
Two objects with equal fingerprints are indistinguishable for the purposes of C09.
"""
from __future__ import annotations

import dataclasses
import enum
import hashlib

import numpy as np
import scipp as sc


def _arr(a) -> tuple:
    a = np.asarray(a)
    if a.dtype == object:
        return ('objarr', a.shape, tuple(fp(x) for x in a.ravel()))
    b = np.ascontiguousarray(a).tobytes()
    if len(b) > 256:
        b = hashlib.sha1(b).hexdigest()
    return ('arr', str(a.dtype), a.shape, b)


def _var(v: sc.Variable) -> tuple:
    if v.bins is not None:
        c = v.bins.constituents
        return ('binned', tuple(v.dims), tuple(v.shape), fp(c['begin']), fp(c['end']), c['dim'], fp(c['data']))
    dt = str(v.dtype)
    if v.dtype in (sc.DType.DataArray, sc.DType.Dataset, sc.DType.Variable, sc.DType.PyObject, sc.DType.string):
        vals = ('vals', tuple(fp(x) for x in (np.asarray(v.values, dtype=object).ravel() if v.ndim else [v.value])))
    else:
        vals = _arr(v.values)
    var = _arr(v.variances) if v.variances is not None else None
    return ('var', tuple(v.dims), tuple(v.shape), str(v.unit), dt, vals, var, bool(getattr(v, 'aligned', True)))


def fp(o, _depth=0):
    if _depth > 40:
        return ('deep',)
    d = _depth + 1
    if o is None or isinstance(o, bool | int | str | bytes):
        return o
    if isinstance(o, float):
        return ('f', o.hex() if o == o and abs(o) != float('inf') else repr(o))
    if isinstance(o, complex):
        return ('c', repr(o))
    if isinstance(o, enum.Enum):
        return ('enum', type(o).__name__, o.name)
    if isinstance(o, sc.Variable):
        return _var(o)
    if isinstance(o, sc.DataArray):
        return (
            'da', o.name, _var(o.data),
            tuple(sorted((k, _var(v)) for k, v in o.coords.items())),
            tuple(sorted((k, _var(v)) for k, v in o.masks.items())),
        )
    if isinstance(o, sc.Dataset):
        return ('ds', tuple(sorted((k, fp(v, d)) for k, v in o.items())), tuple(sorted((k, _var(v)) for k, v in o.coords.items())))
    if isinstance(o, sc.DataGroup):
        return ('dg', tuple(sorted((str(k), fp(v, d)) for k, v in o.items())))
    if isinstance(o, sc.Unit):
        return ('unit', str(o))
    if isinstance(o, np.ndarray | np.generic):
        return _arr(o)
    if isinstance(o, dict):
        return ('dict', tuple((fp(k, d), fp(v, d)) for k, v in o.items()))
    if isinstance(o, list):
        return ('list', tuple(fp(x, d) for x in o))
    if isinstance(o, tuple):
        return ('tuple', tuple(fp(x, d) for x in o))
    if isinstance(o, set | frozenset):
        return ('set', tuple(sorted((fp(x, d) for x in o), key=repr)))
    if callable(o) and hasattr(o, '__qualname__') and not hasattr(o, '__dict__'):
        return ('fn', getattr(o, '__module__', ''), o.__qualname__)
    if callable(o) and hasattr(o, '__qualname__') and type(o).__name__ in ('function', 'builtin_function_or_method', 'method'):
        return ('fn', getattr(o, '__module__', ''), o.__qualname__)
    if hasattr(o, 'isoformat'):
        return ('dt', o.isoformat())
    if dataclasses.is_dataclass(o) and not isinstance(o, type):
        return ('dc', type(o).__name__, tuple((f.name, fp(getattr(o, f.name), d)) for f in dataclasses.fields(o)))
    items = []
    if hasattr(o, '__dict__'):
        items += [(k, fp(v, d)) for k, v in sorted(vars(o).items())]
    for klass in type(o).__mro__:
        for s in getattr(klass, '__slots__', ()) or ():
            if isinstance(s, str) and hasattr(o, s) and s not in ('__dict__', '__weakref__'):
                items.append((s, fp(getattr(o, s), d)))
    if items:
        return ('obj', type(o).__name__, tuple(items))
    return ('repr', type(o).__name__, repr(o))


def digest(o) -> str:
    return hashlib.sha1(repr(fp(o)).encode()).hexdigest()
