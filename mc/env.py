"""Environment set-up shared by every check: which tree is executed, vendored deps.

The code under test is always ``$VERIF_REPO/src`` (default ``/repo/src``), i.e. the
current working tree; this is asserted after import.
"""
from __future__ import annotations

import os
import sys
import zipfile

VERIF = os.path.dirname(os.path.dirname(os.path.abspath(__file__)))
REPO = os.environ.get('VERIF_REPO', '/repo')
WHEELS = '/opt/veriftools/wheels'


def ensure_vendor() -> None:
    vend = os.path.join(VERIF, 'vendor')
    if not os.path.isdir(os.path.join(vend, 'mpmath')):
        os.makedirs(vend, exist_ok=True)
        whl = os.path.join(WHEELS, 'mpmath-1.3.0-py3-none-any.whl')
        tmp = os.path.join(vend, f'.tmp-{os.getpid()}')
        with zipfile.ZipFile(whl) as z:
            z.extractall(tmp)
        try:
            os.rename(os.path.join(tmp, 'mpmath'), os.path.join(vend, 'mpmath'))
        except OSError:
            pass  # another process won the race
        import shutil

        shutil.rmtree(tmp, ignore_errors=True)
    if vend not in sys.path:
        sys.path.insert(0, vend)


def setup_paths() -> None:
    src = os.path.join(REPO, 'src')
    if VERIF not in sys.path:
        sys.path.insert(0, VERIF)
    if sys.path[0] != src:
        if src in sys.path:
            sys.path.remove(src)
        sys.path.insert(0, src)
    ensure_vendor()


def assert_tree() -> None:
    import scippneutron

    src = os.path.realpath(os.path.join(REPO, 'src'))
    got = os.path.realpath(scippneutron.__file__)
    if not got.startswith(src + os.sep):
        raise RuntimeError(
            f'broken harness: scippneutron imported from {got}, expected under {src}'
        )
