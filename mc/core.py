"""Bounded exhaustive explorer: enumerate -> shard -> run real code -> oracle -> evidence.

A property module (``props/cXX_*.py``) provides

    ID            'C12'
    RULE          how cases are enumerated / what makes one non-trivial (text)
    ASSUMPTIONS   list of strings
    cases(tier)   -> list of JSON-able dicts, deterministic, simplest first
    run_case(case, rec)   executes the real code for one case, records into ``rec``
    REQUIRED_CLASSES (optional)  outcome classes the alphabet was built to reach

Everything in ``cases(tier)`` is executed (no sampling).  ``VERIF_SEED`` only rotates
the order in which shards are handed to workers.
"""
from __future__ import annotations

import collections
import hashlib
import importlib
import json
import math
import multiprocessing as mp
import os
import signal
import subprocess
import sys
import threading
import time
import traceback

from . import env

MAX_VIOL_PER_CASE = 8


# ---------------------------------------------------------------------------------------
# canonical forms


def canon(obj) -> str:
    def conv(o):
        if isinstance(o, float):
            if math.isnan(o) or math.isinf(o):
                return repr(o)
            return o.hex()
        if isinstance(o, dict):
            return {str(k): conv(v) for k, v in sorted(o.items(), key=lambda kv: str(kv[0]))}
        if isinstance(o, list | tuple):
            return [conv(v) for v in o]
        return o

    return json.dumps(conv(obj), sort_keys=True, separators=(',', ':'), default=str)


def sha(obj) -> str:
    return hashlib.sha1(canon(obj).encode()).hexdigest()


# ---------------------------------------------------------------------------------------
# per-case recorder


class Rec:
    """Collects what one case covered and every oracle failure seen in it."""

    def __init__(self):
        self.evals = 0  # implementation calls whose result was judged
        self.transitions = 0  # implementation operations executed
        self.validated = 0  # reference-model predictions compared with the impl
        self.states = 0  # distinct configurations / states inside this case
        self.nontrivial = 0
        self.classes = collections.Counter()
        self.violations = []
        self.nviol = 0
        self.obs = hashlib.sha1()  # digest of observations, for determinism checks

    def cls(self, label, n=1):
        self.classes[label] += n

    def observe(self, *things):
        for t in things:
            self.obs.update(repr(t).encode())

    def viol(self, site, kind, msg, **sub):
        self.nviol += 1
        if len(self.violations) < MAX_VIOL_PER_CASE:
            self.violations.append(
                {'site': site, 'kind': kind, 'msg': str(msg)[:600], 'sub': sub}
            )

    def summary(self):
        return {
            'evals': self.evals,
            'transitions': self.transitions,
            'validated': self.validated,
            'states': self.states,
            'nontrivial': self.nontrivial,
            'classes': dict(self.classes),
            'violations': self.violations,
            'nviol': self.nviol,
            'obs': self.obs.hexdigest(),
        }


# ---------------------------------------------------------------------------------------
# worker side

_MOD = None


def load_prop(pid: str):
    env.setup_paths()
    props_dir = os.path.join(env.VERIF, 'props')
    for fn in sorted(os.listdir(props_dir)):
        if fn.lower().startswith(pid.lower() + '_') and fn.endswith('.py'):
            mod = importlib.import_module('props.' + fn[:-3])
            env.assert_tree()
            return mod
    raise SystemExit(f'no property module for {pid}')


def _init_worker(pid, tmpbase=None):
    global _MOD
    os.environ.setdefault('OMP_NUM_THREADS', '1')
    if tmpbase:
        import tempfile

        tempfile.tempdir = tmpbase  # every temp file/dir of the harness lives under the run directory
    _MOD = load_prop(pid)


class CaseCpuLimit(BaseException):
    """Raised inside a case by the CPU-time watchdog (BaseException: harness code catching Exception cannot swallow it)."""


def _on_sigprof(signum, frame):
    raise CaseCpuLimit


def run_one(mod, case) -> dict:
    """Run one case.  A watchdog on the *CPU time of this process* (not wall time, so machine load cannot trip it) turns a
    case that does not come back into a reported failure instead of a check that never ends."""
    rec = Rec()
    limit = float(os.environ.get('VERIF_CASE_CPU_S', '1800') or 0)
    armed = False
    if limit and threading.current_thread() is threading.main_thread() and hasattr(signal, 'ITIMER_PROF'):
        signal.signal(signal.SIGPROF, _on_sigprof)
        signal.setitimer(signal.ITIMER_PROF, limit)
        armed = True
    c0 = time.process_time()
    timed_out = False
    try:
        try:
            mod.run_case(case, rec)
        finally:
            if armed:
                signal.setitimer(signal.ITIMER_PROF, 0)
    except CaseCpuLimit:
        timed_out = True
        rec.viol('no_result', 'cpu_limit_exceeded', f'the case did not come back within {limit:.0f} s of CPU time (VERIF_CASE_CPU_S); the slowest case on the unchanged tree needs a small fraction of that')
    except Exception as e:  # noqa: BLE001 - anything escaping the harness is reported
        tb = traceback.format_exc(limit=6)
        rec.viol('uncaught', type(e).__name__, f'{e}\n{tb}')
    if rec.states == 0:
        rec.states = 1
    out = rec.summary()
    out['cpu_s'] = time.process_time() - c0
    if timed_out:
        out['timed_out'] = True
    return out


def _run_chunk(args):
    idx0, chunk, recheck = args
    out = []
    for k, case in enumerate(chunk):
        s = run_one(_MOD, case)
        if s.get('timed_out'):
            out.append((idx0 + k, s))
            break  # the parent stops the exploration: whatever state the library is in now, it is not a known one
        if k < recheck:
            s2 = run_one(_MOD, case)
            if s2['obs'] != s['obs'] or s2['nviol'] != s['nviol']:
                s['nondeterministic'] = True
        out.append((idx0 + k, s))
    return out


# ---------------------------------------------------------------------------------------
# known findings


def load_findings(pid):
    path = os.path.join(env.VERIF, 'known_findings.json')
    if not os.path.exists(path):
        return []
    with open(path) as f:
        data = json.load(f)
    return [e for e in data.get('findings', []) if e['property'] == pid]


def match_finding(findings, case, v):
    for f in findings:
        if f['site'] != v['site'] or f['kind'] != v['kind']:
            continue
        when = f.get('when')
        if when:
            try:
                if not eval(when, {'__builtins__': {}, 'math': math, 'len': len, 'any': any, 'all': all, 'str': str, 'abs': abs, 'min': min, 'max': max}, {'case': case, 'sub': v.get('sub', {})}):  # noqa: S307 - committed file, fixed vocabulary
                    continue
            except Exception:  # noqa: BLE001 - predicate does not apply to this case
                continue
        return f
    return None


# ---------------------------------------------------------------------------------------
# main driver


def _chunks(cases, nworkers, chunk_hint):
    n = len(cases)
    size = chunk_hint or max(1, min(256, n // (nworkers * 12) or 1))
    return [(i, cases[i : i + size]) for i in range(0, n, size)]


def replay(pid, path):
    mod = load_prop(pid)
    with open(path) as f:
        doc = json.load(f)
    s = run_one(mod, doc['case'])
    print(json.dumps({'case': doc['case'], 'observed': s}, indent=1, default=str)[:6000])
    want = {(v['site'], v['kind']) for v in doc.get('violations', [])}
    got = {(v['site'], v['kind']) for v in s['violations']}
    if want & got or (not want and got):
        print(f'REPRODUCED property={pid} ' + ' '.join(f'{a}/{b}' for a, b in sorted(want & got or got)))
        return 1
    print(f'NOT-REPRODUCED property={pid}')
    return 0


def explore(pid, tier, workers=None, limit=None):
    t0 = time.time()
    seed = int(os.environ.get('VERIF_SEED', '0') or 0)
    budget = float(os.environ.get('VERIF_BUDGET_S', '0') or 0)
    mod = load_prop(pid)
    cases = list(mod.cases(tier))
    if limit:
        cases = cases[:limit]
    n = len(cases)
    hashes = [sha(c) for c in cases]
    nworkers = workers or int(os.environ.get('VERIF_WORKERS', '0') or 0) or min(16, os.cpu_count() or 1)
    nworkers = max(1, min(nworkers, n))
    chunks = _chunks(cases, nworkers, getattr(mod, 'CHUNK', None))
    rot = seed % max(1, len(chunks))
    order = chunks[rot:] + chunks[:rot]
    recheck = getattr(mod, 'RECHECK', 1)
    tasks = [(i0, ch, recheck) for i0, ch in order]

    results = [None] * n
    capped = False
    import shutil
    import tempfile

    tmpbase = tempfile.mkdtemp(prefix=f'verif-run-{pid}-')  # removed below: pool workers are killed, not exited
    try:
        if nworkers == 1:
            _init_worker(pid, tmpbase)
            for t in tasks:
                out = _run_chunk(t)
                for i, s in out:
                    results[i] = s
                if any(s.get('timed_out') for _, s in out):
                    capped = True
                    break
                if budget and time.time() - t0 > budget:
                    capped = True
                    break
        else:
            ctx = mp.get_context('spawn')
            with ctx.Pool(nworkers, initializer=_init_worker, initargs=(pid, tmpbase)) as pool:
                for out in pool.imap_unordered(_run_chunk, tasks):
                    for i, s in out:
                        results[i] = s
                    if any(s.get('timed_out') for _, s in out):
                        capped = True
                        pool.terminate()
                        break
                    if budget and time.time() - t0 > budget:
                        capped = True
                        pool.terminate()
                        break
    finally:
        tempfile.tempdir = None
        shutil.rmtree(tmpbase, ignore_errors=True)

    done = [i for i in range(n) if results[i] is not None]
    agg = collections.Counter()
    classes = collections.Counter()
    nondet = []
    all_viol = []  # (case index, violation)
    for i in done:
        s = results[i]
        for k in ('evals', 'transitions', 'validated', 'states', 'nontrivial', 'nviol'):
            agg[k] += s[k]
        classes.update(s['classes'])
        if s.get('nondeterministic'):
            nondet.append(i)
        for v in s['violations']:
            all_viol.append((i, v))
    distinct_states = len({hashes[i] for i in done})

    findings = load_findings(pid)
    known_hits = collections.OrderedDict()
    new = []
    for i, v in all_viol:
        f = match_finding(findings, cases[i], v)
        if f is not None:
            known_hits.setdefault(f['what'], 0)
            known_hits[f['what']] += 1
        else:
            new.append((i, v))

    # harness self-checks -------------------------------------------------------------
    broken = []
    if nondet:
        broken.append(f'non-deterministic observations for cases {nondet[:5]}')
    req = getattr(mod, 'REQUIRED_CLASSES', [])
    if isinstance(req, dict):
        req = req.get(tier, req.get('all', []))
    for c in req:
        if not capped and not limit and classes.get(c, 0) == 0:
            broken.append(f'vacuous: outcome class {c!r} never observed')

    # report violations (each confirmed from its replay file in a fresh process) --------
    lines = []
    groups = collections.OrderedDict()
    for i, v in new:
        groups.setdefault((v['site'], v['kind']), []).append((i, v))
    rdir = os.path.join(os.environ.get('VERIF_REPLAY_DIR') or os.path.join(env.VERIF, 'replays'), pid)
    confirmed_groups = 0
    for (site, kind), items in groups.items():
        shown = 0
        for i, v in items[:3]:
            os.makedirs(rdir, exist_ok=True)
            path = os.path.join(rdir, f'{hashes[i][:16]}.json')
            vs = [w for j, w in items if j == i]
            with open(path, 'w') as f:
                json.dump({'property': pid, 'tier': tier, 'case': cases[i], 'violations': vs}, f, indent=1, default=str)
            ok = _confirm(pid, path)
            if ok:
                lines.append(f'VIOLATION property={pid} replay={path}')
                lines.append(f'  site={site} kind={kind} cases={len({j for j, _ in items})} first: {v["msg"][:300]}')
                shown += 1
                break
            else:
                broken.append(f'violation {site}/{kind} did not reproduce from {path} in a fresh process')
        confirmed_groups += bool(shown)

    for what, cnt in known_hits.items():
        print(f'KNOWN-FINDING: property={pid} {what} [{cnt} occurrence(s) this run]')
    for ln in lines:
        print(ln)
    for b in broken:
        print(f'BROKEN-HARNESS property={pid} {b}')

    # evidence ------------------------------------------------------------------------
    def sample(i):
        s = results[i]
        return {'case': cases[i], 'hash': hashes[i][:16], 'classes': s['classes'], 'evals': s['evals'], 'violations': s['nviol']}

    samp_idx = sorted({done[0], done[len(done) // 2], done[-1]}) if done else []
    cov = {
        'states': max(1, agg['states']),
        'transitions': max(1, agg['transitions']),
        'traces_validated_against_impl': agg['validated'],
        'evaluations': max(1, agg['evals']),
        'distinct_nontrivial': agg['nontrivial'],
        'rule': mod.RULE,
        'samples': [sample(i) for i in samp_idx],
        'exhaustive': (not capped) and (not limit),
        'cases_enumerated': n,
        'cases_completed': len(done),
        'distinct_case_hashes': distinct_states,
        'outcome_classes': dict(sorted(classes.items())),
        'distinct_outcome_classes': len(classes),
        'workers': nworkers,
        'cap_hit': (('wall-clock budget %.0fs' % budget) if budget else 'stopped after a case exceeded the CPU limit') if capped else None,
        'max_case_cpu_s': round(max((results[i].get('cpu_s', 0.0) for i in done), default=0.0), 3),
        'known_finding_occurrences': dict(known_hits),
        'new_violation_groups': [f'{a}/{b}' for a, b in groups],
        'bound': getattr(mod, 'BOUND', {}).get(tier) if hasattr(mod, 'BOUND') else None,
    }
    if hasattr(mod, 'coverage_extra'):
        cov.update(mod.coverage_extra(tier))
    evid = {
        'property_id': pid,
        'tier': tier,
        'seed': seed,
        'level': getattr(mod, 'LEVEL', 'model_checking'),
        'coverage': cov,
        'assumptions': list(getattr(mod, 'ASSUMPTIONS', [])),
        'wall_s': round(time.time() - t0, 3),
        'violations': len(groups),
    }
    edir = os.environ.get('VERIF_EVIDENCE_DIR') or os.path.join(env.VERIF, 'evidence')
    os.makedirs(edir, exist_ok=True)
    with open(os.path.join(edir, f'{pid}.json'), 'w') as f:
        json.dump(evid, f, indent=1, default=str)
    print(
        f'[{pid} {tier}] cases={len(done)}/{n} states={cov["states"]} transitions={cov["transitions"]} '
        f'validated={cov["traces_validated_against_impl"]} nontrivial={cov["distinct_nontrivial"]} '
        f'classes={len(classes)} known={sum(known_hits.values())} new={len(groups)} wall={evid["wall_s"]}s'
    )
    if lines:
        return 1
    if broken:
        return 2
    return 0


def _confirm(pid, path) -> bool:
    if os.environ.get('VERIF_NO_CONFIRM'):
        return True
    e = dict(os.environ)
    e['PYTHONHASHSEED'] = '0'
    p = subprocess.run(
        [sys.executable, '-m', 'mc', pid, '--replay', path],
        cwd=env.VERIF, env=e, capture_output=True, text=True, timeout=1800,
    )
    return p.returncode == 1 and 'REPRODUCED' in p.stdout


def main(argv=None):
    import argparse

    ap = argparse.ArgumentParser()
    ap.add_argument('pid')
    ap.add_argument('--tier', default=os.environ.get('VERIF_TIER', 'quick'), choices=['quick', 'thorough'])
    ap.add_argument('--replay')
    ap.add_argument('--workers', type=int)
    ap.add_argument('--limit', type=int)
    a = ap.parse_args(argv)
    pid = a.pid.upper()
    if a.replay:
        return replay(pid, a.replay)
    return explore(pid, a.tier, a.workers, a.limit)
