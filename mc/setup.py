"""setup_cmd: vendor pure-Python deps from the offline wheelhouse, self-test the reference models."""
import os
import subprocess
import sys

from . import env

env.setup_paths()
import mpmath  # noqa: E402,F401

print('vendor ok:', mpmath.__version__)
tests = os.path.join(env.VERIF, 'tests')
if os.path.isdir(tests) and any(f.endswith('_test.py') for f in os.listdir(tests)):
    r = subprocess.run([sys.executable, '-m', 'pytest', '-q', '-p', 'no:cacheprovider', tests], cwd=env.VERIF)
    sys.exit(r.returncode)
