"""Reference model for C11: which neutrons of a source pulse pass a chopper cascade.

Everything is done in *emission space*: a neutron is the pair (t0, lam) = (emission time
in s, wavelength in angstrom).  It arrives at distance d (m) at time

    t(d) = t0 + ALPHA * lam * d,      ALPHA = m_n / h * 1e-10   [s / (m angstrom)]

and passes a chopper at distance d iff  open <= t(d) <= close  for one of its windows.
In emission space the pulse is a rectangle and every window is a strip between two
parallel lines, so the transmitted set is a union of convex polygons, one per choice of
one window per chopper.  Shearing (propagation) preserves areas.

All polygon arithmetic is exact (``fractions.Fraction``); inputs are converted with
``Fraction(float)`` so the model works on exactly the numbers the implementation got.

Two independent constructions of the convex pieces are provided (incremental clipping
and brute-force vertex enumeration) plus the pointwise predicate ``transmitted`` which is
the *definition*; the unit tests check the three against each other.

No scippneutron import.
"""
from __future__ import annotations

import itertools
from fractions import Fraction as Fr

import numpy as np

__all__ = [
    'alpha_from',
    'Pulse',
    'Chop',
    'Piece',
    'transmitted',
    'region',
    'enumerate_vertices',
    'area',
    'arrival',
    'classify_points',
    'points_in_polygons',
    'float_area',
]


def alpha_from(m_n: float, h: float) -> Fr:
    """m_n / h in s / (m * angstrom), exactly from the two float constants."""
    return Fr(m_n) / Fr(h) / 10**10


def _fr(x) -> Fr:
    return x if isinstance(x, Fr) else Fr(x)


class Pulse:
    """Source pulse rectangle [tmin, tmax] x [lmin, lmax] (s, angstrom)."""

    def __init__(self, tmin, tmax, lmin, lmax):
        self.tmin, self.tmax, self.lmin, self.lmax = map(_fr, (tmin, tmax, lmin, lmax))
        if not (self.tmin <= self.tmax and self.lmin <= self.lmax):
            raise ValueError('empty pulse')

    def contains(self, t0, lam) -> bool:
        return self.tmin <= t0 <= self.tmax and self.lmin <= lam <= self.lmax

    def area(self) -> Fr:
        return (self.tmax - self.tmin) * (self.lmax - self.lmin)


class Chop:
    """Chopper: distance (m) and a list of (open, close) windows (s); closed intervals."""

    def __init__(self, distance, windows):
        self.distance = _fr(distance)
        self.windows = [(_fr(o), _fr(c)) for o, c in windows]


def transmitted(t0, lam, pulse: Pulse, choppers, alpha: Fr, upto=None) -> bool:
    """The definition: inside the pulse and, for every chopper (with distance <= upto),
    inside one of its windows on arrival.  Exact."""
    t0, lam = _fr(t0), _fr(lam)
    if not pulse.contains(t0, lam):
        return False
    for c in choppers:
        if upto is not None and c.distance > upto:
            continue
        t = t0 + alpha * lam * c.distance
        if not any(o <= t <= cl for o, cl in c.windows):
            return False
    return True


# ---------------------------------------------------------------------------------------
# convex pieces by incremental clipping.
# A polygon is a list of (vertex, label) where vertex = (t0, lam) and label names the
# constraint line carrying the edge that *starts* at this vertex.
# A constraint is  sign * (t0 + k*lam - c) <= 0  with k = alpha*d (or, for the band,
# the line lam = c, encoded with kind 'l').


def _value(kind, k, p):
    return p[1] if kind == 'l' else p[0] + k * p[1]


def _clip(poly, kind, k, c, sign, label):
    """Keep the part with sign*(value - c) <= 0.  Returns (polygon, crossed labels)."""
    n = len(poly)
    if n == 0:
        return [], set()
    vals = [sign * (_value(kind, k, p) - c) for p, _ in poly]
    out = []
    crossed = set()
    for i in range(n):
        j = (i + 1) % n
        (p, lab), (q, _) = poly[i], poly[j]
        vi, vj = vals[i], vals[j]
        if vi <= 0:
            out.append((p, lab))
            if vj > 0:
                if vi < 0:
                    s = vi / (vi - vj)
                    x = (p[0] + s * (q[0] - p[0]), p[1] + s * (q[1] - p[1]))
                    crossed.add(lab)
                else:
                    x = p
                out.append((x, label))
        elif vj <= 0:
            if vj < 0:
                s = vi / (vi - vj)
                x = (p[0] + s * (q[0] - p[0]), p[1] + s * (q[1] - p[1]))
                crossed.add(lab)
                out.append((x, lab))
            # vj == 0: q itself is emitted on its own turn, carrying its own label
    # drop zero-length edges (keep the label of the edge that leaves the point)
    ded = []
    for p, lab in out:
        if ded and ded[-1][0] == p:
            ded[-1] = (p, lab)
        else:
            ded.append((p, lab))
    while len(ded) > 1 and ded[0][0] == ded[-1][0]:
        ded.pop()
    return ded, crossed


class Piece:
    """One convex piece of the transmitted set (emission space, exact)."""

    def __init__(self, poly, combo, crossed):
        self.verts = [p for p, _ in poly]  # (t0, lam) Fractions, in boundary order
        self.labels = [lab for _, lab in poly]
        self.combo = tuple(combo)  # window index per chopper (in the order given)
        self.crossed = crossed  # (label kind of cut edge, 'open'|'close') pairs seen

    @property
    def area(self) -> Fr:
        return area(self.verts)

    @property
    def degenerate(self) -> bool:
        return len(self.verts) < 3 or self.area == 0


def area(verts) -> Fr:
    """Absolute shoelace area (exact for Fractions)."""
    n = len(verts)
    if n < 3:
        return Fr(0)
    s = Fr(0)
    for i in range(n):
        x1, y1 = verts[i]
        x2, y2 = verts[(i + 1) % n]
        s += x1 * y2 - x2 * y1
    return abs(s) / 2


def region(pulse: Pulse, choppers, alpha: Fr, upto=None):
    """All non-empty convex pieces (degenerate ones included) of the transmitted set.

    ``choppers`` are applied in the order given (the result as a set does not depend on
    it; that is checked in the unit tests); choppers with distance > upto are ignored but
    keep their slot in ``combo`` (entry None).
    """
    rect = [
        ((pulse.tmin, pulse.lmin), 'lmin'),
        ((pulse.tmax, pulse.lmin), 'tmax'),
        ((pulse.tmax, pulse.lmax), 'lmax'),
        ((pulse.tmin, pulse.lmax), 'tmin'),
    ]
    # collapse a degenerate rectangle
    ded = []
    for p, lab in rect:
        if ded and ded[-1][0] == p:
            ded[-1] = (p, lab)
        else:
            ded.append((p, lab))
    while len(ded) > 1 and ded[0][0] == ded[-1][0]:
        ded.pop()
    todo = [(ded, (), frozenset())]
    for ci, ch in enumerate(choppers):
        if upto is not None and ch.distance > upto:
            todo = [(poly, (*combo, None), cr) for poly, combo, cr in todo]
            continue
        k = alpha * ch.distance
        nxt = []
        for poly, combo, cr in todo:
            for wi, (o, c) in enumerate(ch.windows):
                p1, x1 = _clip(poly, 't', k, o, -1, ('open', ci, wi))
                if not p1:
                    continue
                p2, x2 = _clip(p1, 't', k, c, +1, ('close', ci, wi))
                if not p2:
                    continue
                kinds = {(_kind(lab), 'open') for lab in x1} | {(_kind(lab), 'close') for lab in x2}
                nxt.append((p2, (*combo, wi), cr | kinds))
        todo = nxt
    return [Piece(poly, combo, cr) for poly, combo, cr in todo]


def _kind(label):
    if isinstance(label, tuple):
        return 'chopper_edge'
    return {'lmin': 'const_lambda_edge', 'lmax': 'const_lambda_edge', 'tmin': 'slanted_edge', 'tmax': 'slanted_edge'}[label]


def enumerate_vertices(pulse: Pulse, choppers, combo, alpha: Fr):
    """Vertices of one convex piece by brute force: intersect every pair of constraint
    lines, keep the points satisfying all constraints.  Returns a *set* of points."""
    lines = [('t', Fr(0), pulse.tmin, -1), ('t', Fr(0), pulse.tmax, +1), ('l', None, pulse.lmin, -1), ('l', None, pulse.lmax, +1)]
    for ch, wi in zip(choppers, combo, strict=True):
        if wi is None:
            continue
        o, c = ch.windows[wi]
        k = alpha * ch.distance
        lines.append(('t', k, o, -1))
        lines.append(('t', k, c, +1))

    def ok(p):
        return all(sign * (_value(kind, k, p) - c) <= 0 for kind, k, c, sign in lines)

    pts = set()
    for (k1, a1, c1, _), (k2, a2, c2, _) in itertools.combinations(lines, 2):
        if k1 == 'l' and k2 == 'l':
            continue
        if k1 == 'l' or k2 == 'l':
            if k1 == 'l':
                lam, kk, cc = c1, a2, c2
            else:
                lam, kk, cc = c2, a1, c1
            p = (cc - kk * lam, lam)
        else:
            if a1 == a2:
                continue
            lam = (c1 - c2) / (a1 - a2)
            p = (c1 - a1 * lam, lam)
        if ok(p):
            pts.add(p)
    return pts


def arrival(verts, alpha: Fr, distance):
    """Emission-space vertices -> (arrival time at distance, lam)."""
    d = _fr(distance)
    return [(t0 + alpha * lam * d, lam) for t0, lam in verts]


# ---------------------------------------------------------------------------------------
# float helpers (vectorised): classification of many probe points with a don't-care band


def classify_points(t0, lam, pulse: Pulse, choppers, alpha: Fr, band_rel=1e-9, upto=None):
    """Float evaluation of ``transmitted`` for arrays of points.

    Returns (transmitted, dontcare).  A point is don't-care if it is within
    band_rel * (time scale at that chopper) of a window edge in arrival time, or within
    band_rel * scale of a pulse edge; outside the bands the float decision equals the
    exact one (float error is ~1e-16 relative, the band 1e-9).
    """
    t0 = np.asarray(t0, dtype=float)
    lam = np.asarray(lam, dtype=float)
    a = float(alpha)
    tmin, tmax, lmin, lmax = (float(x) for x in (pulse.tmin, pulse.tmax, pulse.lmin, pulse.lmax))
    tscale = max(abs(tmin), abs(tmax))
    lscale = max(abs(lmin), abs(lmax))
    ok = (t0 >= tmin) & (t0 <= tmax) & (lam >= lmin) & (lam <= lmax)
    dc = np.zeros(t0.shape, dtype=bool)
    for edge in (tmin, tmax):
        dc |= np.abs(t0 - edge) <= band_rel * tscale
    for edge in (lmin, lmax):
        dc |= np.abs(lam - edge) <= band_rel * lscale
    for ch in choppers:
        d = float(ch.distance)
        if upto is not None and ch.distance > upto:
            continue
        t = t0 + a * lam * d
        scale = tscale + a * lscale * d
        for o, c in ch.windows:
            scale = max(scale, abs(float(o)), abs(float(c)))
        band = band_rel * scale
        passed = np.zeros(t0.shape, dtype=bool)
        for o, c in ch.windows:
            o, c = float(o), float(c)
            passed |= (t >= o) & (t <= c)
            dc |= (np.abs(t - o) <= band) | (np.abs(t - c) <= band)
        ok &= passed
    return ok, dc


def points_in_polygons(x, y, polygons):
    """Even-odd ray casting (ray towards +x) of points against each polygon; a point is
    'in' if it is inside at least one polygon.  polygons: list of (xs, ys) float arrays.
    Returns (inside_any, count) where count is the number of polygons containing it."""
    x = np.asarray(x, dtype=float)
    y = np.asarray(y, dtype=float)
    count = np.zeros(x.shape, dtype=int)
    for xs, ys in polygons:
        xs = np.asarray(xs, dtype=float)
        ys = np.asarray(ys, dtype=float)
        n = len(xs)
        if n < 3:
            continue
        inside = np.zeros(x.shape, dtype=bool)
        for i in range(n):
            j = (i + 1) % n
            xi, yi, xj, yj = xs[i], ys[i], xs[j], ys[j]
            if yi == yj:
                continue
            straddle = (yi > y) != (yj > y)
            # where straddle holds, 0 <= (y - yi)/(yj - yi) <= 1; elsewhere the value is
            # masked out (it may overflow for edges only a few denormals high)
            with np.errstate(all='ignore'):
                xc = xi + (y - yi) / (yj - yi) * (xj - xi)
            inside ^= straddle & (x < xc)
        count += inside
    return count > 0, count


def float_area(xs, ys) -> float:
    """Shoelace area of a float polygon, evaluated exactly on the floats given."""
    return float(area([(Fr(float(a)), Fr(float(b))) for a, b in zip(xs, ys, strict=True)]))
