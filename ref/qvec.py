"""Q-vector and hkl algebra at 50 digits (C08).

Definitions (docstrings of ``conversion.tof.Q_elements_from_wavelength`` and
``hkl_vec_from_Q_vec``):

    Q_vec = (2 pi / lambda) (e_i - e_f),   e_i = b1/|b1|, e_f = b2/|b2|
    Q_l   = 2 pi R U B hkl

No scippneutron import.
"""
from __future__ import annotations

import mpmath

from ref import geom, hp

mpf = hp.mpf


def q_vec(lam, b1, b2):
    """(2 pi/lam)(e_i - e_f); lam a float in some unit -> result in 1/that unit."""
    v1, v2 = hp.vec(b1), hp.vec(b2)
    e = hp.sub(hp.scale(v1, 1 / hp.norm(v1)), hp.scale(v2, 1 / hp.norm(v2)))
    return hp.scale(e, 2 * hp.PI / mpf(float(lam)))


def q_scalar(lam, b1, b2):
    """|Q| = 4 pi sin(theta) / lambda with 2theta the angle between the beams."""
    tt = hp.angle_between(hp.vec(b1), hp.vec(b2))
    return hp.Q_from_wavelength(mpf(float(lam)), tt)


def ub(u, b):
    return geom.matmul(geom.mat(u), geom.mat(b))


def hkl_residual(rmat, ubmat, hkl, q):
    """(|2 pi R UB hkl - Q|, |Q|) with R, UB mpf 3x3 matrices, hkl and q float triples."""
    a = geom.matmul(rmat, ubmat)
    lhs = hp.scale(geom.matvec(a, hp.vec(hkl)), 2 * hp.PI)
    qv = hp.vec(q)
    return hp.norm(hp.sub(lhs, qv)), hp.norm(qv)


def hkl_residual_a(a, hkl, q):
    """Same as hkl_residual with the product a = R UB (mpf 3x3) already formed."""
    lhs = hp.scale(geom.matvec(a, hp.vec(hkl)), 2 * hp.PI)
    qv = hp.vec(q)
    return hp.norm(hp.sub(lhs, qv)), hp.norm(qv)


def hkl_exact(rmat, ubmat, q):
    """Solve 2 pi R UB hkl = Q at 50 digits (Cramer)."""
    a = geom.matmul(rmat, ubmat)
    m = mpmath.matrix(a)
    x = mpmath.lu_solve(m, mpmath.matrix(hp.vec(q)))
    return [x[i] / (2 * hp.PI) for i in range(3)]
