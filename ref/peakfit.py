"""Reference model for C17: what a coherent peak-fit result and a peak removal look like.

Nothing here imports scippneutron and nothing here *fits*: the model only judges what
the implementation returned.

* fixed quasi-random noise table (golden-ratio Weyl sequence through the inverse normal
  CDF - no RNG, the same numbers in every process);
* which points a window [lo, hi) holds (label-based slicing of a sorted point coordinate);
* goodness-of-fit statistics recomputed from parameters and data (DESIGN C17: reduced
  chi-square = chi2/(n-k), p = P(X >= chi2), X ~ chi2(n-k); AIC = n ln(chi2/n) + 2k);
* the requirement table a result marked successful must satisfy;
* the rules for automatically built windows (inside the data range, contain the
  estimate, keep factor*gap from each neighbouring estimate - per-side reading);
* peak removal: which points may change and by how much (half-open windows, as the fit).
"""
from __future__ import annotations

import math

import numpy as np
from scipy.special import ndtri
from scipy.stats import chi2 as _chi2

from ref import peakshape as ps

GOLDEN = (math.sqrt(5.0) - 1.0) / 2.0
_TABLE_LEN = 4096


def _make_table():
    k = np.arange(1, _TABLE_LEN + 1, dtype=float)
    u = (k * GOLDEN) % 1.0
    # consecutive Weyl points are strongly anti-correlated; read the table with a stride
    # coprime to its length so that neighbouring data points get unrelated deviates
    z = ndtri(u)
    idx = (np.arange(_TABLE_LEN) * 601) % _TABLE_LEN  # 601: odd, lag-1..5 autocorrelation of the first 200 entries < 0.2
    return z[idx]


NOISE = _make_table()


def noise(n: int, offset: int = 0) -> np.ndarray:
    """n standard-normal-like deviates starting at ``offset`` of the fixed table."""
    idx = (np.arange(n) + offset) % _TABLE_LEN
    return NOISE[idx].copy()


# ---------------------------------------------------------------------------------------
# windows


def in_window(x, lo, hi):
    """Boolean mask of the points a label-based slice [lo, hi) of a sorted point
    coordinate holds."""
    x = np.asarray(x, dtype=float)
    return (x >= lo) & (x < hi)


def on_boundary(x, lo, hi):
    """Points equal to a window bound (lo belongs to the window, hi does not)."""
    x = np.asarray(x, dtype=float)
    return (x == lo) | (x == hi)


def auto_window_faults(xmin, xmax, estimates, windows, factor):
    """Rules violated by automatically built windows; list of (rule, index, text).

    estimates: sorted list of floats; windows: list of (lo, hi).
    """
    out = []
    n = len(estimates)
    if len(windows) != n:
        return [('count', -1, f'{len(windows)} windows for {n} estimates')]
    slack = 1e-12
    for i, ((lo, hi), c) in enumerate(zip(windows, estimates, strict=True)):
        if not (xmin <= lo <= xmax and xmin <= hi <= xmax):
            out.append(('outside_data_range', i, f'window {i} = [{lo!r}, {hi!r}] leaves the data range [{xmin!r}, {xmax!r}]'))
        if xmin <= c <= xmax and not (lo <= c <= hi):
            out.append(('estimate_not_contained', i, f'window {i} = [{lo!r}, {hi!r}] does not contain its in-range estimate {c!r}'))
        if lo < hi:  # an empty window keeps every distance
            if i > 0:
                gap = c - estimates[i - 1]
                limit = estimates[i - 1] + factor * gap
                if lo < limit - slack * max(abs(limit), abs(gap)):
                    out.append(('too_close_to_left_neighbour', i, f'window {i} starts at {lo!r}, closer than {factor!r}*gap to the estimate {estimates[i - 1]!r} (limit {limit!r})'))
            if i < n - 1:
                gap = estimates[i + 1] - c
                limit = estimates[i + 1] - factor * gap
                if hi > limit + slack * max(abs(limit), abs(gap)):
                    out.append(('too_close_to_right_neighbour', i, f'window {i} ends at {hi!r}, closer than {factor!r}*gap to the estimate {estimates[i + 1]!r} (limit {limit!r})'))
    return out


# ---------------------------------------------------------------------------------------
# model values and statistics

PEAK_PARAMS = {'gaussian': ('amplitude', 'loc', 'scale'), 'lorentzian': ('amplitude', 'loc', 'scale'), 'pseudo_voigt': ('amplitude', 'loc', 'scale', 'fraction')}


def n_params(shape: str, degree: int) -> int:
    return len(PEAK_PARAMS[shape]) + degree + 1


def expected_param_names(shape: str, degree: int) -> set:
    return {'peak_' + p for p in PEAK_PARAMS[shape]} | {f'bkg_a{i}' for i in range(degree + 1)}


def peak_values(shape, popt, x):
    return ps.peak(shape, x, {p: popt['peak_' + p] for p in PEAK_PARAMS[shape]})


def background_values(degree, popt, x):
    return ps.polynomial(x, [popt[f'bkg_a{i}'] for i in range(degree + 1)])


def model_values(shape, degree, popt, x):
    return background_values(degree, popt, x) + peak_values(shape, popt, x)


def statistics(y, var, f, k):
    """chi2, dof, reduced chi2, p-value, AIC for data y +- sqrt(var), model values f, k parameters."""
    y, var, f = (np.asarray(a, dtype=float) for a in (y, var, f))
    n = len(y)
    chi2 = math.fsum((((y - f) ** 2) / var).tolist())
    dof = n - k
    out = {'chi2': chi2, 'n': n, 'dof': dof}
    if dof > 0 and chi2 > 0:
        out['red_chisq'] = chi2 / dof
        out['p_value'] = float(_chi2.sf(chi2, dof))
        out['aic'] = n * math.log(chi2 / n) + 2 * k
        # how strongly the p-value reacts to a relative change of chi2
        out['p_cond'] = float(chi2 * _chi2.pdf(chi2, dof))
        out['aic_scale'] = n * abs(math.log(chi2 / n)) + 2 * k + n
    return out


def statistics_faults(reported, ref, rel=1e-9):
    """Compare reported {'red_chisq','p_value','aic'} (floats) with ``statistics`` output."""
    out = []
    if 'red_chisq' not in ref:
        return out
    r = reported['red_chisq']
    if not abs(r - ref['red_chisq']) <= rel * ref['red_chisq']:
        out.append(('red_chisq', f'reported reduced chi-square {r!r}, recomputed {ref["red_chisq"]!r} (chi2 {ref["chi2"]!r}, dof {ref["dof"]})'))
    p = reported['p_value']
    if not abs(p - ref['p_value']) <= rel * (1.0 + ref['p_cond']):
        out.append(('p_value', f'reported p-value {p!r}, recomputed {ref["p_value"]!r} (chi2 {ref["chi2"]!r}, dof {ref["dof"]})'))
    a = reported['aic']
    if not abs(a - ref['aic']) <= rel * ref['aic_scale']:
        out.append(('aic', f'reported AIC {a!r}, recomputed {ref["aic"]!r} (chi2 {ref["chi2"]!r}, n {ref["n"]})'))
    return out


# ---------------------------------------------------------------------------------------
# requirements of a successful result


def requirement_faults(shape, popt, p_value, x_in_window, lo, hi, *, min_p_value, max_peak_width_factor, min_peak_width_factor):
    """Stated requirements a result marked successful violates; list of (name, text).

    Weakest readings: window width = hi - lo as reported; coordinate spacing = the
    smaller of the two spacings adjacent to the point nearest the fitted location.
    """
    out = []
    if not p_value >= min_p_value:
        out.append(('p_value_below_minimum', f'p-value {p_value!r} < min_p_value {min_p_value!r}'))
    amp = popt['peak_amplitude']
    if not amp >= 0:
        out.append(('negative_amplitude', f'amplitude {amp!r} < 0'))
    width = ps.fwhm(shape, popt['peak_scale'])
    slack = 1 + 1e-9
    if not width <= max_peak_width_factor * (hi - lo) * slack:
        out.append(('wider_than_allowed', f'FWHM {width!r} > {max_peak_width_factor!r} * window width {hi - lo!r}'))
    x = np.asarray(x_in_window, dtype=float)
    if len(x) >= 2:
        c = int(np.argmin(np.abs(x - popt['peak_loc'])))
        spacings = []
        if c > 0:
            spacings.append(x[c] - x[c - 1])
        if c < len(x) - 1:
            spacings.append(x[c + 1] - x[c])
        sp = min(spacings)
        if not width * slack >= min_peak_width_factor * sp:
            out.append(('narrower_than_allowed', f'FWHM {width!r} < {min_peak_width_factor!r} * coordinate spacing {sp!r}'))
    return out


# ---------------------------------------------------------------------------------------
# removal


def removal_faults(x, y_in, y_out, successes, peak_tol=1e-12):
    """successes: list of (shape, popt, lo, hi) of the results marked successful, in order.

    Window membership is the one the fit itself used: the half-open label slice [lo, hi)
    of the sorted coordinate (``in_window``) - a point equal to ``lo`` is inside, a point
    equal to ``hi`` is outside.  Outside every successful window the output must be the
    input bit for bit; inside, output = input - sum of the fitted peaks whose window
    holds the point.
    """
    x, y_in, y_out = (np.asarray(a, dtype=float) for a in (x, y_in, y_out))
    out = []
    expect = y_in.copy()
    scale = np.abs(y_in).copy()
    touched = np.zeros(len(x), dtype=bool)
    upper_edge = np.zeros(len(x), dtype=bool)
    for shape, popt, lo, hi in successes:
        m = in_window(x, lo, hi)
        pk = peak_values(shape, popt, x[m])
        expect[m] -= pk
        scale[m] += np.abs(pk)
        touched |= m
        upper_edge |= x == hi
    outside = ~touched
    bad = outside & ~((y_out == y_in) | (np.isnan(y_out) & np.isnan(y_in)))
    if np.any(bad):
        i = int(np.flatnonzero(bad)[0])
        where = 'is the upper bound of a successful window, which the half-open window [lo, hi) does not hold,' if upper_edge[i] else 'lies in no successful window'
        out.append(('changed_on_upper_bound' if upper_edge[i] else 'changed_outside_windows', f'point x={x[i]!r} {where} but changed from {y_in[i]!r} to {y_out[i]!r}'))
    tol = peak_tol * scale + 4 * ps.EPS * scale
    bad = touched & ~(np.abs(y_out - expect) <= tol)
    if np.any(bad):
        i = int(np.flatnonzero(bad)[0])
        out.append(('not_input_minus_peak', f'point x={x[i]!r} in a successful window: output {y_out[i]!r}, input - fitted peak(s) = {expect[i]!r} (input {y_in[i]!r})'))
    return out
