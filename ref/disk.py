"""A simulated rotating chopper disk in exact rational arithmetic (reference model for C10).

Nothing here imports scippneutron, and nothing here uses the package's time formula.
The model is written from the *definitions* of the quantities (NeXus NXdisk_chopper as
restated in the package documentation):

* angles are fractions of a full turn, measured anticlockwise as seen from the source;
* slits are closed arcs ``[begin, end]`` *on the disk*, measured from the disk's
  top-dead-centre (TDC) mark;
* the beam crosses the disk at the fixed (laboratory) angle ``beam`` measured from the TDC
  sensor;
* the disk rotates uniformly with signed frequency ``freq`` (turns per second, positive =
  anticlockwise);
* ``phase = freq * (t_tdc - T0)``: the TDC mark is at the sensor at time ``t_tdc`` (all
  times here are offsets from the pulse time ``T0``), i.e. at ``t_tdc = phase / freq``.

Hence the laboratory angle of the TDC mark at time ``t`` is ``freq * (t - t_tdc)``, the
disk point ``theta`` is at laboratory angle ``theta + freq * (t - t_tdc)``, and the disk
point under the beam at time ``t`` is

    theta(t) = beam - freq * (t - t_tdc) = beam + phase - freq * t        (mod 1 turn).

The chopper is *open* at ``t`` iff ``theta(t)`` lies in some slit arc.  Everything else
(maximal open intervals, which slit, which rotation) is derived from this one predicate by
an event scan: collect the times at which any slit edge passes the beam, and classify the
elementary interval between two consecutive events by evaluating the predicate at its
midpoint.  No assumption that slits are disjoint is made, so overlapping / touching slit
sets are handled too (their arcs merge into one opening).

All numbers are ``fractions.Fraction``; no floating point is involved.
"""
from __future__ import annotations

import math
import numbers
from dataclasses import dataclass
from fractions import Fraction as Fr


@dataclass(frozen=True)
class Opening:
    """A maximal open interval ``[open, close]`` (seconds, exact).

    ``slits`` lists the ``(slit index, rotation)`` pairs whose arcs make up the opening;
    for a valid (non-overlapping) slit set this is exactly one pair.  ``rotation`` k means
    the unreduced disk angle under the beam ran through ``[begin + k, end + k]``.
    """

    open: Fr
    close: Fr
    slits: tuple

    @property
    def duration(self) -> Fr:
        return self.close - self.open


def _fr(x) -> Fr:
    if isinstance(x, Fr):
        return x
    if isinstance(x, numbers.Integral):
        return Fr(int(x))  # numpy integers would otherwise overflow silently inside Fraction
    if isinstance(x, numbers.Real) and not isinstance(x, numbers.Rational):
        return Fr(float(x))  # the exact value of the float
    return Fr(x)


class Disk:
    def __init__(self, slits, beam, phase, freq):
        """slits: iterable of (begin, end) in turns; beam, phase in turns; freq in turns/s (signed)."""
        self.slits = tuple((_fr(b), _fr(e)) for b, e in slits)
        self.beam = _fr(beam)
        self.phase = _fr(phase)
        self.freq = _fr(freq)
        if self.freq == 0:
            raise ValueError('a disk at rest has no openings')
        for b, e in self.slits:
            if e < b:
                raise ValueError('slit with end < begin')

    # -- the definition ------------------------------------------------------------------
    @property
    def period(self) -> Fr:
        return 1 / abs(self.freq)

    def angle(self, t) -> Fr:
        """Unreduced disk angle (turns from the TDC mark) under the beam at time t."""
        return self.beam + self.phase - self.freq * _fr(t)

    def slits_at(self, t):
        """All (slit index, rotation) whose closed arc contains the disk point under the beam."""
        a = self.angle(t)
        out = []
        for i, (b, e) in enumerate(self.slits):
            # arcs b+k <= a <= e+k  <=>  a-e <= k <= a-b
            k_lo = math.ceil(a - e)
            k_hi = math.floor(a - b)
            out.extend((i, k) for k in range(k_lo, k_hi + 1))
        return out

    def is_open(self, t) -> bool:
        a = self.angle(t)
        for b, e in self.slits:
            if e - b >= 1:
                return True
            if (a - b) % 1 <= e - b:
                return True
        return False

    # -- derived -------------------------------------------------------------------------
    def always_open(self) -> bool:
        """True iff the slit arcs cover the whole disk."""
        pts = sorted({(x % 1) for be in self.slits for x in be} | {Fr(0)})
        pts.append(pts[0] + 1)
        probes = list(pts[:-1]) + [(p + q) / 2 for p, q in zip(pts[:-1], pts[1:], strict=True)]
        return bool(self.slits) and all(self._angle_in_slit(p) for p in probes)

    def _angle_in_slit(self, a) -> bool:
        return any(e - b >= 1 or (a - b) % 1 <= e - b for b, e in self.slits)

    def edge_times(self, t0, t1):
        """Sorted distinct times in [t0, t1] at which a slit edge is under the beam."""
        t0, t1 = _fr(t0), _fr(t1)
        c = self.beam + self.phase
        a0, a1 = sorted((self.angle(t0), self.angle(t1)))
        out = set()
        for b, e in self.slits:
            for x in (b, e):
                # angle(t) = x + k  for integer k with a0 <= x + k <= a1
                for k in range(math.ceil(a0 - x), math.floor(a1 - x) + 1):
                    t = (c - x - k) / self.freq
                    if t0 <= t <= t1:
                        out.add(t)
        return sorted(out)

    def openings(self, t0, t1):
        """All maximal open intervals that intersect [t0, t1], in time order.

        Returns ``None`` if the disk is open at all times (no maximal interval exists).
        Openings of zero duration (zero-width slits) are not reported.
        """
        t0, t1 = _fr(t0), _fr(t1)
        if t1 < t0:
            raise ValueError('empty span')
        if not self.slits:
            return []
        if self.always_open():
            return None
        # a maximal interval is shorter than one period, so one period of margin on either
        # side contains every interval that intersects [t0, t1] completely
        lo, hi = t0 - self.period, t1 + self.period
        ev = self.edge_times(lo, hi)
        pts = [lo, *[t for t in ev if lo < t < hi], hi]
        segs = []  # (start, end, is_open) elementary intervals
        for p, q in zip(pts[:-1], pts[1:], strict=True):
            segs.append((p, q, self.is_open((p + q) / 2)))
        merged = []
        for p, q, o in segs:
            if not o:
                continue
            if merged and merged[-1][1] == p:
                merged[-1][1] = q
            else:
                merged.append([p, q])
        out = []
        for p, q in merged:
            if p == lo or q == hi:
                # clipped by the margin: by the length argument it cannot intersect [t0, t1]
                if q >= t0 and p <= t1:
                    raise AssertionError('opening longer than one period in a disk that is not always open')
                continue
            if q < t0 or p > t1:
                continue
            which = set()
            cuts = [p, *[t for t in ev if p < t < q], q]
            for u, v in zip(cuts[:-1], cuts[1:], strict=True):
                which.update(self.slits_at((u + v) / 2))
            out.append(Opening(p, q, tuple(sorted(which))))
        return out

    def min_feature(self) -> Fr:
        """Smallest slit width or gap between neighbouring arcs, in seconds (None if no slits)."""
        if not self.slits:
            return None
        feats = [e - b for b, e in self.slits if e > b]
        arcs = sorted(((b % 1), (b % 1) + (e - b)) for b, e in self.slits)
        for (_, e0), (b1, _) in zip(arcs, arcs[1:] + [(arcs[0][0] + 1, None)], strict=True):
            if b1 - e0 > 0:
                feats.append(b1 - e0)
        return min(feats) * self.period


def arcs_overlap(slits) -> bool:
    """True iff two slit arcs share more than a boundary point on the disk, or one arc is
    longer than a full turn (it overlaps itself).  Arcs that merely touch do not overlap."""
    arcs = [(_fr(b), _fr(e)) for b, e in slits]
    for b, e in arcs:
        if e - b > 1:
            return True
    for i, (b0, e0) in enumerate(arcs):
        for b1, e1 in arcs[i + 1 :]:
            # shift arc 1 by whole turns so that its begin is in [b0, b0 + 1)
            s = b1 + math.ceil(b0 - b1)
            w = e1 - b1
            # overlap of open arcs (b0, e0) and (s, s + w) or (s - 1, s - 1 + w)
            if s < e0 and s + w > b0 and w > 0 and e0 > b0:
                return True
            if s - 1 < e0 and s - 1 + w > b0 and w > 0 and e0 > b0:
                return True
    return False


def arcs_touch(slits) -> bool:
    """True iff some pair of arcs shares a boundary point (or an arc is exactly a full turn)."""
    arcs = [(_fr(b), _fr(e)) for b, e in slits]
    if any(e - b == 1 for b, e in arcs):
        return True
    for i, (b0, e0) in enumerate(arcs):
        for b1, e1 in arcs[i + 1 :]:
            if (b1 - e0) % 1 == 0 or (b0 - e1) % 1 == 0:
                return True
    return False
