"""Independent CIF 1.1 lexer / parser (reference model for C14).

Implements the lexical and syntactic level of the IUCr "CIF 1.1 syntax specification"
(BNF paragraphs restated in DESIGN 3.4).  Shares no code with scippneutron and imports
nothing besides the standard library.

    doc = parse(text)                # raises CifSyntaxError(code, line, col, msg)
    doc.header                       # True when the first line is the '#\\#CIF_1.1' magic comment
    doc.comments                     # [(line_no, text after '#'), ...]   (never part of the data)
    doc.blocks                       # [Block(name, items)]
    item = Pair(tag, Value) | Loop(tags, rows)        # tags without the leading '_'
    Value(kind, text)                # kind in {'bare', 'sq', 'dq', 'text'}

Rules (the tricky ones):

* only printable ASCII, HT, LF, CR may occur anywhere in the file;
* end of line is LF, CR LF or a lone CR;
* tokens are separated by blanks (SP, HT, EOL); ``#`` starts a comment only *at the
  start of a token*; inside a token it is an ordinary character;
* ``;`` as the *first character of a line* opens a text field that runs to the next
  line whose first character is ``;``; the content is everything in between without
  the final end of line; the closing ``;`` must be followed by a blank or end of file;
  a ``;`` anywhere else is an ordinary character (and may start an unquoted value);
* ``'...'`` / ``"..."`` live on one line and are closed by the same quote character
  *followed by a blank or end of file*; a quote followed by a non-blank is content;
* an unquoted value may not start with ``_ # $ ' " [ ]`` and may not be a reserved
  word: ``data_<anything>``, ``save_<anything>``, ``loop_``, ``global_``, ``stop_``
  (case-insensitive).  ``data_<name>`` (>= 1 character of name) opens a block,
  ``loop_`` a loop; save frames, ``global_`` and ``stop_`` are rejected;
* a block is a sequence of ``tag value`` pairs and loops; a loop is ``loop_``, >= 1
  tags and a positive multiple of len(tags) values.

Not checked (semantic level, not demanded by C14): uniqueness of tags and block names,
the 2048-character line limit, the 75-character name limit, dictionary conformance.
``?`` and ``.`` are returned as ordinary bare values.
"""
from __future__ import annotations

import math
import re
from dataclasses import dataclass, field

MAGIC = '#\\#CIF_1.1'
BLANK = ' \t\n\r'
_ILLEGAL_START = '_#$\'"[]'


class CifSyntaxError(Exception):
    def __init__(self, code: str, line: int, col: int, msg: str = ''):
        self.code = code
        self.line = line
        self.col = col
        super().__init__(f'{code} at line {line} column {col}' + (f': {msg}' if msg else ''))


@dataclass(frozen=True)
class Value:
    kind: str  # 'bare' | 'sq' | 'dq' | 'text'
    text: str


@dataclass
class Pair:
    tag: str
    value: Value


@dataclass
class Loop:
    tags: list
    rows: list  # list of lists of Value


@dataclass
class Block:
    name: str
    items: list = field(default_factory=list)


@dataclass
class Document:
    header: bool
    comments: list
    blocks: list
    max_line_length: int = 0


@dataclass(frozen=True)
class Token:
    type: str  # 'data' | 'loop' | 'tag' | 'value'
    text: str  # block name / '' / tag name / value text
    kind: str  # value kind, '' otherwise
    line: int
    col: int


# ---------------------------------------------------------------------------------------
# lexer


def _check_chars(text: str) -> None:
    line, col = 1, 1
    i, n = 0, len(text)
    while i < n:
        c = text[i]
        o = ord(c)
        if not (32 <= o <= 126 or c in '\t\n\r'):
            raise CifSyntaxError('illegal_char', line, col, f'character {c!r} (U+{o:04X})')
        if c == '\r':
            if i + 1 < n and text[i + 1] == '\n':
                i += 1
            line, col = line + 1, 1
        elif c == '\n':
            line, col = line + 1, 1
        else:
            col += 1
        i += 1


def _is_eol(c: str) -> bool:
    return c == '\n' or c == '\r'


def lex(text: str):
    """Return (tokens, comments).  comments = [(line, text_after_hash)]."""
    _check_chars(text)
    tokens, comments = [], []
    n = len(text)
    i = 0
    line = 1
    line_start = 0  # index of the first character of the current line

    def eol_len(j):  # length of the end-of-line sequence at j (0 if none)
        if j < n and text[j] == '\r':
            return 2 if j + 1 < n and text[j + 1] == '\n' else 1
        if j < n and text[j] == '\n':
            return 1
        return 0

    while i < n:
        c = text[i]
        k = eol_len(i)
        if k:
            i += k
            line += 1
            line_start = i
            continue
        if c == ' ' or c == '\t':
            i += 1
            continue
        col = i - line_start + 1
        if c == '#':
            j = i
            while j < n and not _is_eol(text[j]):
                j += 1
            comments.append((line, text[i + 1 : j]))
            i = j
            continue
        if c == ';' and i == line_start:
            # text field: find the next line that starts with ';'
            j = i + 1
            l2 = line
            end = None
            while j < n:
                k = eol_len(j)
                if k:
                    if j + k < n and text[j + k] == ';':
                        end = j  # content ends before this end of line
                        close = j + k
                        l2 += 1
                        break
                    j += k
                    l2 += 1
                else:
                    j += 1
            if end is None:
                raise CifSyntaxError('unterminated_text_field', line, col, 'no closing ";" at the start of a line')
            content = text[i + 1 : end]
            tokens.append(Token('value', content, 'text', line, col))
            i = close + 1
            line = l2
            line_start = close
            if i < n and text[i] not in BLANK:
                raise CifSyntaxError(
                    'no_blank_after_text_field', line, 2, f'closing ";" directly followed by {text[i]!r}'
                )
            continue
        if c == "'" or c == '"':
            j = i + 1
            close = None
            while j < n and not _is_eol(text[j]):
                if text[j] == c and (j + 1 == n or text[j + 1] in BLANK):
                    close = j
                    break
                j += 1
            if close is None:
                raise CifSyntaxError('unterminated_quote', line, col, f'no closing {c} followed by a blank on this line')
            tokens.append(Token('value', text[i + 1 : close], 'sq' if c == "'" else 'dq', line, col))
            i = close + 1
            continue
        # bare token: up to the next blank
        j = i
        while j < n and text[j] not in BLANK:
            j += 1
        word = text[i:j]
        low = word.lower()
        if c == '_':
            if len(word) < 2:
                raise CifSyntaxError('bad_tag', line, col, 'lone "_"')
            tokens.append(Token('tag', word[1:], '', line, col))
        elif low.startswith('data_'):
            if len(word) == 5:
                raise CifSyntaxError('empty_block_name', line, col, '"data_" without a block name')
            tokens.append(Token('data', word[5:], '', line, col))
        elif low == 'loop_':
            tokens.append(Token('loop', '', '', line, col))
        elif low.startswith('save_') or low == 'global_' or low == 'stop_':
            raise CifSyntaxError('reserved_word', line, col, f'{word!r} is reserved in CIF 1.1')
        elif c in _ILLEGAL_START:  # only $ [ ] can get here
            raise CifSyntaxError('illegal_unquoted_start', line, col, f'unquoted value {word!r} starts with {c!r}')
        else:
            tokens.append(Token('value', word, 'bare', line, col))
        i = j
    return tokens, comments


# ---------------------------------------------------------------------------------------
# parser


def parse(text: str, *, require_header: bool = False) -> Document:
    tokens, comments = lex(text)
    first_line = re.split(r'\r\n|\n|\r', text, maxsplit=1)[0] if text else ''
    header = first_line.rstrip(' \t') == MAGIC
    if require_header and not header:
        raise CifSyntaxError('missing_header', 1, 1, f'first line is {first_line[:40]!r}, expected {MAGIC!r}')
    lines = re.split(r'\r\n|\n|\r', text)
    doc = Document(header=header, comments=comments, blocks=[], max_line_length=max(map(len, lines)) if lines else 0)
    cur = None
    i, n = 0, len(tokens)
    while i < n:
        t = tokens[i]
        if t.type == 'data':
            cur = Block(t.text)
            doc.blocks.append(cur)
            i += 1
            continue
        if cur is None:
            raise CifSyntaxError('item_outside_block', t.line, t.col, f'{t.type} before the first data_ heading')
        if t.type == 'tag':
            if i + 1 >= n or tokens[i + 1].type != 'value':
                raise CifSyntaxError('tag_without_value', t.line, t.col, f'tag _{t.text} is not followed by a value')
            v = tokens[i + 1]
            cur.items.append(Pair(t.text, Value(v.kind, v.text)))
            i += 2
        elif t.type == 'loop':
            j = i + 1
            tags = []
            while j < n and tokens[j].type == 'tag':
                tags.append(tokens[j].text)
                j += 1
            if not tags:
                raise CifSyntaxError('loop_without_tags', t.line, t.col)
            vals = []
            while j < n and tokens[j].type == 'value':
                vals.append(Value(tokens[j].kind, tokens[j].text))
                j += 1
            if not vals or len(vals) % len(tags):
                raise CifSyntaxError(
                    'loop_value_count', t.line, t.col, f'{len(vals)} values for {len(tags)} tags ({tags[:4]})'
                )
            w = len(tags)
            cur.items.append(Loop(tags, [vals[k : k + w] for k in range(0, len(vals), w)]))
            i = j
        else:
            raise CifSyntaxError('value_without_tag', t.line, t.col, f'stray value {t.text[:40]!r}')
    return doc


# ---------------------------------------------------------------------------------------
# helpers for the harness

_NUM = re.compile(r'^([+-]?)(\d+)(?:\.(\d*))?(?:[eE]([+-]?\d+))?(?:\((\d+)\))?$')
_NUM2 = re.compile(r'^([+-]?)\.(\d+)(?:[eE]([+-]?\d+))?(?:\((\d+)\))?$')


def parse_number(token: str):
    """CIF numeric token -> (value, su, unit_of_last_digit).

    su is None without a parenthesised uncertainty.  The su digits apply to the last
    printed digits of the mantissa (``1.20(3)`` = 1.20 +- 0.03, ``0(1000)`` = 0 +- 1000).
    Returns None when the token is not numeric.
    """
    m = _NUM.match(token)
    if m:
        sign, ip, fp, ex, su = m.groups()
        fp = fp or ''
    else:
        m = _NUM2.match(token)
        if not m:
            return None
        sign, fp, ex, su = m.groups()
        ip = '0'
    e = int(ex) if ex else 0
    mant = token.split('(')[0]
    value = float(mant)
    unit = float(f'1e{e - len(fp)}')
    s = None
    if su is not None:
        s = float(f'{int(su)}e{e - len(fp)}')
    return value, s, unit


def rounding_unit(token: str):
    """Decimal position to which an ``x(u)`` token was rounded.

    The uncertainty digits apply to the last printed digits of the mantissa.  When the
    uncertainty exceeds the unit of the last mantissa digit, its trailing zeros are place
    holders (``0(1000)`` is 0 +- 1000 rounded to the hundreds: one significant digit of
    the uncertainty, two when the leading digit is 1), so the token carries the value only
    to ``unit * 10**(placeholder zeros)``.  Returns None for tokens without uncertainty.
    """
    num = parse_number(token)
    if num is None or num[1] is None:
        return None
    digits = token[token.index('(') + 1 : token.index(')')].lstrip('0') or '0'
    keep = 2 if digits[0] == '1' and len(digits) >= 2 else 1
    sig = max(len(digits.rstrip('0')), keep)
    return num[2] * float(f'1e{len(digits) - sig}')


_ESC = re.compile(r'\\x([0-9a-fA-F]{2})|\\u([0-9a-fA-F]{4})|\\U([0-9a-fA-F]{8})')


def unescape(s: str) -> str:
    r"""Undo ``\xNN`` / ``\uNNNN`` / ``\UNNNNNNNN`` escapes (ASCII encoding of non-ASCII text)."""
    return _ESC.sub(lambda m: chr(int(m.group(1) or m.group(2) or m.group(3), 16)), s)


def representable(s: str) -> bool:
    """Can ``s`` (already ASCII) be stored as a CIF 1.1 value, up to surrounding blanks?

    Anything without a line break can be quoted or put into a text field; with line
    breaks only a text field works, and a text field cannot contain an end of line
    followed by ';'.
    """
    core = s.strip(BLANK)
    return not re.search(r'[\n\r];', core)


def duplicate_tags(block: Block) -> list:
    seen, dup = set(), []
    for it in block.items:
        for t in [it.tag] if isinstance(it, Pair) else it.tags:
            if t.lower() in seen:
                dup.append(t)
            seen.add(t.lower())
    return dup
