"""Reference model for C16 (and the closed forms C17 recomputes statistics with).

Written from the *definitions* (normalised Gaussian / Lorentzian, pseudo-Voigt as the
mixture of the two with equal FWHM, polynomial as the power sum), not from the
package: nothing here imports scippneutron.

Contents
* closed forms in numpy (float64) and in 50-digit mpmath;
* the FWHM of each shape as a function of its ``scale``;
* a quadrature rule on the whole real line: x = mu + h*tan(u), midpoint rule in u.  For
  a Lorentzian the transformed integrand is constant, for a Gaussian it is smooth and
  flat to all orders at the ends, so the midpoint rule converges faster than any power
  of 1/n (4096 nodes: ~1e-16, see tests/peakshape_test.py);
* exact (dyadic) symmetric offsets d with mu+d and mu-d both representable;
* the power sum in mpmath together with its condition number sum |a_i x^i|.
"""
from __future__ import annotations

import math
from fractions import Fraction

import mpmath
import numpy as np

mp = mpmath.mp
mp.dps = 50
mpf = mpmath.mpf

EPS = 2.0**-52
SQRT_2LN2 = math.sqrt(2.0 * math.log(2.0))  # sigma -> half width at half maximum of a Gaussian
SHAPES = ('gaussian', 'lorentzian', 'pseudo_voigt')

# ---------------------------------------------------------------------------------------
# closed forms, float64


def gaussian(x, amplitude, loc, scale):
    x = np.asarray(x, dtype=float)
    return amplitude / (math.sqrt(2.0 * math.pi) * scale) * np.exp(-0.5 * ((x - loc) / scale) ** 2)


def lorentzian(x, amplitude, loc, scale):
    x = np.asarray(x, dtype=float)
    return amplitude / math.pi * scale / ((x - loc) ** 2 + scale * scale)


def pseudo_voigt(x, amplitude, loc, scale, fraction):
    """fraction * Lorentzian(HWHM = scale) + (1 - fraction) * Gaussian(HWHM = scale)."""
    sigma_g = scale / SQRT_2LN2
    return fraction * lorentzian(x, amplitude, loc, scale) + (1.0 - fraction) * gaussian(x, amplitude, loc, sigma_g)


def polynomial(x, coefs):
    x = np.asarray(x, dtype=float)
    out = np.zeros_like(x)
    for i, a in enumerate(coefs):
        out = out + a * x**i
    return out


def peak(shape, x, params):
    """params: dict with amplitude, loc, scale (and fraction for pseudo_voigt)."""
    if shape == 'gaussian':
        return gaussian(x, params['amplitude'], params['loc'], params['scale'])
    if shape == 'lorentzian':
        return lorentzian(x, params['amplitude'], params['loc'], params['scale'])
    if shape == 'pseudo_voigt':
        return pseudo_voigt(x, params['amplitude'], params['loc'], params['scale'], params['fraction'])
    raise ValueError(shape)


def fwhm(shape, scale):
    if shape == 'gaussian':
        return 2.0 * SQRT_2LN2 * scale
    if shape in ('lorentzian', 'pseudo_voigt'):
        return 2.0 * scale
    raise ValueError(shape)


# ---------------------------------------------------------------------------------------
# closed forms, 50 digits


def gaussian_hp(x, amplitude, loc, scale):
    x, a, m, s = mpf(x), mpf(amplitude), mpf(loc), mpf(scale)
    return a / (mpmath.sqrt(2 * mp.pi) * s) * mpmath.exp(-((x - m) ** 2) / (2 * s * s))


def lorentzian_hp(x, amplitude, loc, scale):
    x, a, m, s = mpf(x), mpf(amplitude), mpf(loc), mpf(scale)
    return a / mp.pi * s / ((x - m) ** 2 + s * s)


def pseudo_voigt_hp(x, amplitude, loc, scale, fraction):
    sg = mpf(scale) / mpmath.sqrt(2 * mpmath.log(2))
    f = mpf(fraction)
    return f * lorentzian_hp(x, amplitude, loc, scale) + (1 - f) * gaussian_hp(x, amplitude, loc, sg)


def poly_hp(coefs, x):
    """(sum a_i x^i, sum |a_i x^i|) in 50 digits for float coefficients and abscissa."""
    x = mpf(x)
    val = mpf(0)
    cond = mpf(0)
    p = mpf(1)
    for a in coefs:
        t = mpf(a) * p
        val += t
        cond += abs(t)
        p *= x
    return val, cond


# ---------------------------------------------------------------------------------------
# quadrature over the real line


def tan_rule(mu: float, h: float, n: int = 4096):
    """Nodes (float64, as they are handed to the implementation) and weights of
    int f(x) dx ~= sum w_i f(x_i) with x = mu + h tan(u), u midpoints of (-pi/2, pi/2)."""
    du = math.pi / n
    u = -0.5 * math.pi + (np.arange(n) + 0.5) * du
    t = np.tan(u)
    x = mu + h * t
    w = h * (1.0 + t * t) * du
    return x, w


def integrate(values, weights) -> float:
    return math.fsum((np.asarray(values, dtype=float) * weights).tolist())


def integral_tolerance(mu: float, h: float) -> float:
    """Relative tolerance of the tan rule on the float nodes.

    1e-12 covers the rule itself and the rounding of the 4096 products.  The nodes
    mu + h*tan(u) are rounded to the float grid around mu (spacing <= eps*|mu| near the
    peak), i.e. displaced by up to eps*|mu|/2, which is eps*|mu|/(2h) of the half width;
    the integrand's logarithmic derivative is <= 2/h in that region, and the
    displacements can all have one sign, hence the second term (factor 8 for slack).
    """
    return 1e-12 + 8.0 * EPS * abs(mu) / h


# ---------------------------------------------------------------------------------------
# exact symmetric abscissae


def _exact(mu: float, d: float) -> bool:
    return Fraction(mu + d) == Fraction(mu) + Fraction(d) and Fraction(mu - d) == Fraction(mu) - Fraction(d)


def symmetric_offset(mu: float, target: float) -> float:
    """A positive float d within 25 % of ``target`` (as close as the float grid around mu
    allows) such that mu + d and mu - d are exact.  Exists whenever mu is dyadic with few
    mantissa bits (the alphabets use such locations) and target is not below the grid
    spacing at mu; ValueError otherwise."""
    if target <= 0 or not math.isfinite(target):
        raise ValueError(target)
    m, e = math.frexp(target)
    for bits in range(53, 0, -1):
        d = math.ldexp(round(math.ldexp(m, bits)), e - bits)
        if d > 0 and abs(d - target) <= 0.25 * target and _exact(mu, d):
            return d
    raise ValueError(f'no exact symmetric offset near {target!r} around {mu!r}')


def displacement(mu: float, x: float, h: float) -> float:
    """| |x - mu| - h |, evaluated exactly on the floats given."""
    return float(abs(abs(Fraction(x) - Fraction(mu)) - Fraction(h)))


def half_max_tolerance(mu: float, x: float, h: float) -> float:
    """Relative tolerance for f(x) = f(mu)/2 when x is the float nearest mu +/- h.

    The logarithmic derivative of all three shapes at half maximum is <= 2 ln2 * 2 / (2h)
    = 1.39/h (Gaussian; 1/h for the Lorentzian), so an abscissa that misses mu +/- h by
    delta changes f by at most 1.39*delta/h relative.  Factor 3 for slack; 1e-12 from
    the property's design.
    """
    return 1e-12 + 3.0 * displacement(mu, x, h) / h


# ---------------------------------------------------------------------------------------
# orderings of an abscissa array: the value of a model at a point must not depend on which
# other points are in x, nor on where in x the point stands


def ordering_classes(n: int) -> dict:
    """Index arrays into an *ascending* array of n >= 4 points, one per ordering class."""
    a = np.arange(n)
    k = max(2, int(round(0.618 * n)))
    while math.gcd(k, n) != 1:
        k += 1
    centre_out = np.argsort(np.abs(a - (n - 1) / 2.0), kind='stable')
    out = {
        'descending': a[::-1],
        'low_ends': np.concatenate([[0], a[2:], [1]]),  # both end points are the two smallest abscissae
        'high_ends': np.concatenate([[n - 1], a[: n - 2], [n - 2]]),  # both end points are the two largest
        'rotated': np.roll(a, n // 3),
        'centre_out': centre_out,  # starts next to the middle, ends at the extremes
        'ends_in': centre_out[::-1],
        'interleaved': (a * k) % n,
        'each_twice': np.repeat(a, 2),
        'tiled_low_ends': np.concatenate([[0], a[2:], [1], [0], a[2:], [1]]),
        'all_equal_to_middle': np.full(5, n // 2),
    }
    return out


def is_permutation_with_repeats(idx, n) -> bool:
    idx = np.asarray(idx)
    return idx.ndim == 1 and len(idx) > 0 and idx.min() >= 0 and idx.max() < n


# ---------------------------------------------------------------------------------------
# what a model object must be after any history of uses: its names are prefix + base names


class ModelState:
    """Boring reference of a model object's observable naming state."""

    def __init__(self, base_names, prefix=''):
        self.base = frozenset(base_names)
        self.prefix = prefix

    @property
    def param_names(self):
        return {self.prefix + b for b in self.base}

    def after(self, op, arg=None):
        """State of the object an operation hands back (only with_prefix changes anything)."""
        if op == 'with_prefix':
            return ModelState(self.base, arg)
        return ModelState(self.base, self.prefix)

    def rename(self, params_by_base):
        return {self.prefix + b: v for b, v in params_by_base.items()}
