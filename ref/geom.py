"""Euclidean definitions of the straight-beamline quantities at 50 digits (C03).

Pure definitions on the float values handed to the implementation: differences,
norms and the angle between two vectors.  Also the small exact-geometry helpers the
geometry checks share (signed-permutation rotations, quaternion -> matrix).
No scippneutron import.
"""
from __future__ import annotations

import itertools

import mpmath

from ref import hp

mpf = hp.mpf


def euclid(source, sample, position) -> dict:
    """All straight-beamline quantities for three positions given in ONE length unit.

    Each argument is a sequence of three floats.  Lengths come out in that same unit,
    the angle in rad.
    """
    so, sa, po = hp.vec(source), hp.vec(sample), hp.vec(position)
    b1 = hp.sub(sa, so)
    b2 = hp.sub(po, sa)
    l1 = hp.norm(b1)
    l2 = hp.norm(b2)
    return {
        'incident_beam': b1,
        'scattered_beam': b2,
        'L1': l1,
        'L2': l2,
        'Ltotal_scatter': l1 + l2,
        'Ltotal_no_scatter': hp.norm(hp.sub(po, so)),
        'two_theta': hp.angle_between(b1, b2),
    }


def two_theta(b1, b2):
    """Angle between two float 3-vectors (any units, any lengths), in [0, pi]."""
    return hp.angle_between(hp.vec(b1), hp.vec(b2))


# exact rotations --------------------------------------------------------------------


def cube_rotations() -> list[tuple[tuple[int, int], ...]]:
    """The 24 proper rotations of the cube as signed permutations.

    Each is ((src_index, sign), ...) per output component: out[i] = sign * v[src].
    Applying one to a float vector is exact.
    """
    out = []
    for perm in itertools.permutations(range(3)):
        # parity of the permutation
        inv = sum(1 for i in range(3) for j in range(i + 1, 3) if perm[i] > perm[j])
        psign = -1 if inv % 2 else 1
        for signs in itertools.product((1, -1), repeat=3):
            det = psign * signs[0] * signs[1] * signs[2]
            if det == 1:
                out.append(tuple((perm[i], signs[i]) for i in range(3)))
    return out


def apply_cube(rot, v):
    return [s * v[j] for (j, s) in rot]


def cube_matrix(rot):
    m = [[0.0] * 3 for _ in range(3)]
    for i, (j, s) in enumerate(rot):
        m[i][j] = float(s)
    return m


def quat_to_matrix(q):
    """Rotation matrix (mpf 3x3) of the quaternion (x, y, z, w), normalised first."""
    x, y, z, w = (mpf(float(c)) for c in q)
    n = mpmath.sqrt(x * x + y * y + z * z + w * w)
    x, y, z, w = x / n, y / n, z / n, w / n
    return [
        [1 - 2 * (y * y + z * z), 2 * (x * y - z * w), 2 * (x * z + y * w)],
        [2 * (x * y + z * w), 1 - 2 * (x * x + z * z), 2 * (y * z - x * w)],
        [2 * (x * z - y * w), 2 * (y * z + x * w), 1 - 2 * (x * x + y * y)],
    ]


def mat(m):
    return [[mpf(float(x)) for x in row] for row in m]


def matvec(m, v):
    return [sum(m[i][k] * v[k] for k in range(3)) for i in range(3)]


def matmul(a, b):
    return [[sum(a[i][k] * b[k][j] for k in range(3)) for j in range(3)] for i in range(3)]
