"""50-digit evaluation of the *definitions* in SI (mpmath), with exact unit factors.

No code shared with scippneutron.  Physical constants are the float values scipp
exposes (``sc.constants``) promoted exactly to mpf, as the property demands
("evaluated with the physical constants scipp exposes").
"""
from __future__ import annotations

from fractions import Fraction

import mpmath
import scipp as sc
import scipp.constants  # noqa: F401

mp = mpmath.mp
mp.dps = 50
mpf = mpmath.mpf

H = mpf(sc.constants.h.value)  # J s
M_N = mpf(sc.constants.m_n.value)  # kg
EV = mpf(sc.scalar(1.0, unit='eV').to(unit='J').value)  # J per eV
PI = mp.pi

# exact factors to SI -----------------------------------------------------------------
TIME = {'ns': Fraction(1, 10**9), 'us': Fraction(1, 10**6), 'ms': Fraction(1, 10**3), 's': Fraction(1)}
LENGTH = {
    'fm': Fraction(1, 10**15), 'angstrom': Fraction(1, 10**10), 'nm': Fraction(1, 10**9),
    'um': Fraction(1, 10**6), 'mm': Fraction(1, 10**3), 'cm': Fraction(1, 10**2),
    'm': Fraction(1), 'km': Fraction(10**3),
}
ENERGY_EV = {'ueV': Fraction(1, 10**6), 'meV': Fraction(1, 10**3), 'eV': Fraction(1), 'J': None}


def F(x) -> mpmath.mpf:
    """Exact promotion of a float / int / Fraction to mpf."""
    if isinstance(x, Fraction):
        return mpf(x.numerator) / mpf(x.denominator)
    return mpf(x)


def time_si(value, unit):
    return F(value) * F(TIME[unit])


def length_si(value, unit):
    return F(value) * F(LENGTH[unit])


def energy_factor(unit):
    """Joule per <unit>."""
    if unit == 'J':
        return mpf(1)
    return F(ENERGY_EV[unit]) * EV


def energy_si(value, unit):
    return F(value) * energy_factor(unit)


def angle_rad(value, unit):
    return F(value) if unit == 'rad' else F(value) * PI / 180


# definitions (all SI in, SI out) -------------------------------------------------------


def wavelength_from_tof(t, L):
    return H * t / (M_N * L)


def energy_from_tof(t, L):
    return M_N * L * L / (2 * t * t)


def energy_from_wavelength(lam):
    return H * H / (2 * M_N * lam * lam)


def wavelength_from_energy(E):
    return H / mpmath.sqrt(2 * M_N * E)


def dspacing_from_wavelength(lam, two_theta):
    return lam / (2 * mpmath.sin(two_theta / 2))


def Q_from_wavelength(lam, two_theta):
    return 4 * PI * mpmath.sin(two_theta / 2) / lam


def speed_from_energy(E):
    return mpmath.sqrt(2 * E / M_N)


ANGSTROM = mpf(10) ** -10
MEV = EV / 1000


def rel_err(got, want) -> float:
    """|got-want|/|want| as float (got: float, want: mpf).  inf/nan -> inf."""
    try:
        g = mpf(got)
    except (TypeError, ValueError):
        return float('inf')
    if not mpmath.isfinite(g):
        return float('inf')
    if want == 0:
        return float(abs(g))
    return float(abs(g - want) / abs(want))


def angle_between(a, b):
    """Angle between two 3-vectors (sequences of mpf) via atan2(|a x b|, a.b)."""
    cx = a[1] * b[2] - a[2] * b[1]
    cy = a[2] * b[0] - a[0] * b[2]
    cz = a[0] * b[1] - a[1] * b[0]
    cr = mpmath.sqrt(cx * cx + cy * cy + cz * cz)
    dt = a[0] * b[0] + a[1] * b[1] + a[2] * b[2]
    return mpmath.atan2(cr, dt)


def vec(v):
    return [mpf(float(x)) for x in v]


def norm(a):
    return mpmath.sqrt(sum(x * x for x in a))


def dot(a, b):
    return sum(x * y for x, y in zip(a, b, strict=True))


def cross(a, b):
    return [a[1] * b[2] - a[2] * b[1], a[2] * b[0] - a[0] * b[2], a[0] * b[1] - a[1] * b[0]]


def sub(a, b):
    return [x - y for x, y in zip(a, b, strict=True)]


def add(a, b):
    return [x + y for x, y in zip(a, b, strict=True)]


def scale(a, s):
    return [x * s for x in a]
