"""Reference model of a solid right circular cylinder (no scippneutron import).

The solid is described the way the package describes it: unit ``axis`` (symmetry line),
``base`` (centre of one end cap), ``radius`` r, ``height`` h; the solid is

    { q : 0 <= (q-base).e3 <= h  and  |(q-base) - ((q-base).e3) e3| <= r },   e3 = axis/|axis|

Everything is evaluated in an orthonormal frame (e1, e2, e3) *built here* from the axis
by Gram-Schmidt on the coordinate axis least aligned with it - no rotation formula is
shared with the package.  Two implementations of the same definitions:

* ``mp``  : mpmath at 50 digits, scalar - the oracle for path lengths;
* ``np``  : float64, vectorised - membership of many quadrature points, moments, and a
  converged independent integral of the single-scattering transmission.

Path length = Lebesgue measure of { t >= 0 : start + t*dir in solid } with |dir| = 1 (the
solid is convex, so the set is one interval).
"""
from __future__ import annotations

import math

import mpmath
import numpy as np

mpmath.mp.dps = 50
mpf = mpmath.mpf

# Convention of the thermal-neutron tables: absorption cross sections are quoted at
# v = 2200 m/s, i.e. lambda = 1.7982 angstrom, and scale linearly with wavelength (1/v law).
REFERENCE_WAVELENGTH_ANGSTROM = 1.7982


# ----------------------------------------------------------------------------------------
# frame


class Frame:
    """Orthonormal right-handed frame (e1, e2, e3 = axis direction) with origin ``base``."""

    def __init__(self, axis, base=(0.0, 0.0, 0.0)):
        a = [mpf(float(x)) for x in axis]
        n = mpmath.sqrt(sum(x * x for x in a))
        if n == 0:
            raise ValueError('zero axis')
        e3 = [x / n for x in a]
        k = min(range(3), key=lambda i: (abs(e3[i]), i))
        helper = [mpf(1) if i == k else mpf(0) for i in range(3)]
        d = e3[k]
        v = [helper[i] - d * e3[i] for i in range(3)]
        vn = mpmath.sqrt(sum(x * x for x in v))
        e1 = [x / vn for x in v]
        e2 = [
            e3[1] * e1[2] - e3[2] * e1[1],
            e3[2] * e1[0] - e3[0] * e1[2],
            e3[0] * e1[1] - e3[1] * e1[0],
        ]
        self.e = (e1, e2, e3)
        self.base = [mpf(float(x)) for x in base]
        # float64 copies for the vectorised routines (each entry correctly rounded)
        self.E = np.array([[float(x) for x in row] for row in self.e])
        self.base_f = np.array([float(x) for x in base], dtype=float)

    # -- mp ----------------------------------------------------------------------------
    def local_point(self, q):
        d = [mpf(float(q[i])) - self.base[i] for i in range(3)]
        return [sum(d[i] * row[i] for i in range(3)) for row in self.e]

    def local_dir(self, v):
        """Components of a direction, normalised to unit length."""
        w = [mpf(float(x)) for x in v]
        c = [sum(w[i] * row[i] for i in range(3)) for row in self.e]
        n = mpmath.sqrt(sum(x * x for x in c))
        return [x / n for x in c]

    # -- float64 -----------------------------------------------------------------------
    def to_global_point(self, loc):
        """float64 global coordinates of local point(s) (x', y', z') - for building inputs."""
        loc = np.asarray(loc, dtype=float)
        return loc @ self.E + self.base_f

    def to_global_dir(self, loc):
        loc = np.asarray(loc, dtype=float)
        g = loc @ self.E
        return g / np.linalg.norm(g, axis=-1, keepdims=True)

    def np_local_points(self, pts):
        return (np.asarray(pts, dtype=float) - self.base_f) @ self.E.T

    def np_local_dirs(self, dirs):
        c = np.asarray(dirs, dtype=float) @ self.E.T
        return c / np.linalg.norm(c, axis=-1, keepdims=True)


# ----------------------------------------------------------------------------------------
# mp: membership and ray/solid intersection in local coordinates


def inside(p, r, h, grow=0):
    """Membership predicate for a local point; ``grow`` enlarges (shrinks if < 0) the solid."""
    r, h, grow = mpf(r), mpf(h), mpf(grow)
    R = r + grow
    if R < 0 or h + 2 * grow < 0:
        return False
    return p[0] * p[0] + p[1] * p[1] <= R * R and -grow <= p[2] <= h + grow


def ray_interval(p, d, r, h, grow=0):
    """[lo, hi] = { t >= 0 : p + t d inside the (grown) solid } or None if empty.

    p, d: local coordinates (mpf), |d| = 1.
    """
    r, h, grow = mpf(r), mpf(h), mpf(grow)
    R = r + grow
    zlo, zhi = -grow, h + grow
    if R < 0 or zhi < zlo:
        return None
    lo, hi = mpf(0), mpf('inf')
    A = d[0] * d[0] + d[1] * d[1]
    B = p[0] * d[0] + p[1] * d[1]
    C = p[0] * p[0] + p[1] * p[1] - R * R
    if A == 0:
        if C > 0:
            return None
    else:
        disc = B * B - A * C
        if disc < 0:
            return None
        s = mpmath.sqrt(disc)
        lo = max(lo, (-B - s) / A)
        hi = min(hi, (-B + s) / A)
    if d[2] == 0:
        if not (zlo <= p[2] <= zhi):
            return None
    else:
        t0 = (zlo - p[2]) / d[2]
        t1 = (zhi - p[2]) / d[2]
        if t0 > t1:
            t0, t1 = t1, t0
        lo = max(lo, t0)
        hi = min(hi, t1)
    if hi < lo:
        return None
    return lo, hi


def ray_length(p, d, r, h, grow=0):
    iv = ray_interval(p, d, r, h, grow)
    return mpf(0) if iv is None else iv[1] - iv[0]


def path_length(frame, r, h, start, direction, grow=0):
    """Path length of the global ray (start, direction) in the solid (mpf)."""
    return ray_length(frame.local_point(start), frame.local_dir(direction), r, h, grow)


def path_length_bounds(frame, r, h, start, direction, delta):
    """(lower, upper) bound of the path length when every input datum may be perturbed so
    that no point of the ray moves by more than ``delta`` relative to the solid: the
    solid shrunk / grown by delta is contained in / contains every such perturbed solid."""
    p = frame.local_point(start)
    d = frame.local_dir(direction)
    return ray_length(p, d, r, h, -delta), ray_length(p, d, r, h, delta)


# ----------------------------------------------------------------------------------------
# float64, vectorised


def np_inside(loc, r, h, margin_r=0.0, margin_z=0.0):
    loc = np.asarray(loc, dtype=float)
    rho = np.hypot(loc[..., 0], loc[..., 1])
    return (rho <= r + margin_r) & (loc[..., 2] >= -margin_z) & (loc[..., 2] <= h + margin_z)


def np_ray_length(p, d, r, h):
    """Path lengths for local points p[..., 3] and unit local directions d[..., 3] (broadcast)."""
    p, d = np.broadcast_arrays(np.asarray(p, dtype=float), np.asarray(d, dtype=float))
    px, py, pz = p[..., 0], p[..., 1], p[..., 2]
    dx, dy, dz = d[..., 0], d[..., 1], d[..., 2]
    A = dx * dx + dy * dy
    B = px * dx + py * dy
    C = px * px + py * py - r * r
    with np.errstate(divide='ignore', invalid='ignore'):
        disc = B * B - A * C
        s = np.sqrt(np.where(disc >= 0, disc, 0.0))
        par = A == 0
        lo_c = np.where(par, -np.inf, (-B - s) / np.where(par, 1.0, A))
        hi_c = np.where(par, np.inf, (-B + s) / np.where(par, 1.0, A))
        ok_c = np.where(par, C <= 0, disc >= 0)
        flat = dz == 0
        t0 = (0.0 - pz) / np.where(flat, 1.0, dz)
        t1 = (h - pz) / np.where(flat, 1.0, dz)
        lo_s = np.where(flat, -np.inf, np.minimum(t0, t1))
        hi_s = np.where(flat, np.inf, np.maximum(t0, t1))
        ok_s = np.where(flat, (pz >= 0) & (pz <= h), True)
    lo = np.maximum(np.maximum(lo_c, lo_s), 0.0)
    hi = np.minimum(hi_c, hi_s)
    return np.where(ok_c & ok_s & (hi > lo), hi - lo, 0.0)


def moments(loc, w):
    """Raw moments of a weighted point set about the origin of the coordinates given:
    m0 = sum w, m1[i] = sum w x_i, m2[i, j] = sum w x_i x_j."""
    loc = np.asarray(loc, dtype=float)
    w = np.asarray(w, dtype=float)
    m0 = w.sum()
    m1 = w @ loc
    m2 = (loc * w[:, None]).T @ loc
    return {'m0': m0, 'm1': m1, 'm2': m2}


def attenuation(density, sigma_scatter, sigma_absorb, wavelength_angstrom):
    """mu = n (sigma_s + sigma_a lambda / lambda_ref): plain floats in consistent units."""
    return density * (sigma_scatter + sigma_absorb * wavelength_angstrom / REFERENCE_WAVELENGTH_ANGSTROM)


def _gauss_legendre(n):
    x, w = np.polynomial.legendre.leggauss(n)
    return 0.5 * (x + 1.0), 0.5 * w  # on [0, 1]


def _panel_rule(n_panels, order):
    """Composite Gauss-Legendre on [0, 1]."""
    x, w = _gauss_legendre(order)
    xs = (np.arange(n_panels)[:, None] + x[None, :]) / n_panels
    ws = np.tile(w / n_panels, (n_panels, 1))
    return xs.ravel(), ws.ravel()


def solid_nodes(r, h, n_u, n_theta, n_z, order=4):
    """Nodes (local coordinates) and weights of an independent product rule on the solid:
    composite Gauss-Legendre in u = (rho/r)^2 and in z, rectangle rule in theta.
    Weights sum to pi r^2 h."""
    u, wu = _panel_rule(n_u, order)
    z, wz = _panel_rule(n_z, order)
    th = (np.arange(n_theta) + 0.5) * (2 * math.pi / n_theta)
    rho = r * np.sqrt(u)
    U, T, Z = np.meshgrid(np.arange(len(u)), np.arange(n_theta), np.arange(len(z)), indexing='ij')
    pts = np.stack([rho[U] * np.cos(th[T]), rho[U] * np.sin(th[T]), h * z[Z]], axis=-1).reshape(-1, 3)
    w = (wu[U] * wz[Z]).reshape(-1) * (math.pi * r * r * h / n_theta)
    return pts, w


def transmission_sum(pts, w, volume, r, h, beam_local, det_local, mus):
    """sum_i w_i exp(-mu (L1_i + L2_i)) / volume for local points, detectors [n_det, 3]
    (positions, local) and attenuation coefficients mus [n_mu]; returns [n_det, n_mu].

    L1: path from the point back towards the source (direction -beam);
    L2: path from the point towards the detector position."""
    pts = np.asarray(pts, dtype=float)
    beam = np.asarray(beam_local, dtype=float)
    beam = beam / np.linalg.norm(beam)
    L1 = np_ray_length(pts, -beam[None, :], r, h)
    out = np.empty((len(det_local), len(mus)))
    for j, det in enumerate(np.asarray(det_local, dtype=float)):
        sd = det[None, :] - pts
        sd /= np.linalg.norm(sd, axis=1, keepdims=True)
        L = L1 + np_ray_length(pts, sd, r, h)
        for k, mu in enumerate(mus):
            out[j, k] = (w @ np.exp(-mu * L)) / volume
    return out


def transmission_exact(r, h, beam_local, det_local, mus, n=(12, 48, 12)):
    """Converged independent value of the transmission integral and an error estimate
    (difference to the next coarser resolution): (T[n_det, n_mu], err[n_det, n_mu])."""
    vol = math.pi * r * r * h
    res = []
    for f in (1, 2):
        nu, nt, nz = (max(2, (k * f) // 2) for k in n)
        pts, w = solid_nodes(r, h, nu, nt, nz)
        res.append(transmission_sum(pts, w, vol, r, h, beam_local, det_local, mus))
    return res[1], np.abs(res[1] - res[0])
