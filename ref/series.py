"""List-based reference model for plateau finding, collapsing and in-phase filtering.

Everything is exact: inputs are promoted to ``Fraction`` (floats exactly, ints as they
are), decisions are made on rationals.  Nothing here imports scippneutron or scipp.

Definitions (property C19):

* a *plateau* is a maximal run of consecutive points such that every slope between
  neighbours inside the run satisfies ``|dy/dx| <= atol``; runs shorter than
  ``min_n_points`` are dropped; runs are returned in input order as ``(start, stop)``
  index pairs (``stop`` exclusive).  Every point belongs to exactly one maximal run, so
  runs are disjoint by construction.
* *collapse*: per run the exact mean of the values and the closed hull ``[min, max]`` of
  its coordinates; the implementation must report a half-open interval ``[lo, hi)``
  with ``lo <= min`` and ``max < hi`` (the model additionally knows the tight answer
  ``lo == min`` and ``hi == next representable after max``).
* *in phase*: ``f`` is in phase with ``ref`` if it is within the relative tolerance of an
  integer multiple ``n*ref`` or an integer divisor ``ref/n`` (``n`` integer, ``n != 0``
  for divisors).  "Relative" has two defensible readings -- relative to the reference
  (deviation of ``f/ref`` resp. ``ref/f`` from the integer) and relative to the target
  value ``n*ref`` resp. ``ref/n`` -- so the model answers ``'keep'`` / ``'drop'`` only
  where both readings agree with a margin, and ``'dontcare'`` otherwise.
"""
from __future__ import annotations

from fractions import Fraction


def frac(x) -> Fraction:
    """Exact promotion of an int / float / Fraction."""
    if isinstance(x, Fraction):
        return x
    if isinstance(x, bool):
        raise TypeError('bool is not a number here')
    if isinstance(x, int):
        return Fraction(x)
    if isinstance(x, float):
        if x != x or x in (float('inf'), float('-inf')):
            raise ValueError('non-finite input')
        return Fraction(x)
    # numpy scalars
    if hasattr(x, 'item'):
        return frac(x.item())
    raise TypeError(type(x))


def slopes(xs, ys) -> list[Fraction]:
    xs = [frac(x) for x in xs]
    ys = [frac(y) for y in ys]
    if len(xs) != len(ys):
        raise ValueError('length mismatch')
    out = []
    for i in range(len(xs) - 1):
        dx = xs[i + 1] - xs[i]
        if dx <= 0:
            raise ValueError('coordinates must be strictly ascending')
        out.append((ys[i + 1] - ys[i]) / dx)
    return out


def maximal_runs(xs, ys, atol) -> list[tuple[int, int]]:
    """All maximal runs (including runs of a single point), in order."""
    atol = frac(atol)
    n = len(xs)
    if n == 0:
        return []
    sl = slopes(xs, ys)
    runs = []
    start = 0
    for i, s in enumerate(sl):
        if abs(s) > atol:  # the step from point i to i+1 leaves the tolerance: a run ends at i
            runs.append((start, i + 1))
            start = i + 1
    runs.append((start, n))
    return runs


def plateaus(xs, ys, atol, min_n_points) -> list[tuple[int, int]]:
    return [(a, b) for a, b in maximal_runs(xs, ys, atol) if b - a >= int(min_n_points)]


def guard_fires(xs, ys, runs, atol) -> bool:
    """The documented total-drift guard: (max-min)/(mean coordinate step) > 2*atol for some run.

    Only used to classify calls that raise; the property does not constrain it.
    """
    atol = frac(atol)
    for a, b in runs:
        if b - a < 2:
            continue
        yy = [frac(y) for y in ys[a:b]]
        xx = [frac(x) for x in xs[a:b]]
        mean_step = (xx[-1] - xx[0]) / (len(xx) - 1)
        if (max(yy) - min(yy)) / mean_step > 2 * atol:
            return True
    return False


def collapse(xs, ys, runs) -> list[dict]:
    out = []
    for a, b in runs:
        if b <= a:
            raise ValueError('empty run')
        yy = [frac(y) for y in ys[a:b]]
        xx = [frac(x) for x in xs[a:b]]
        out.append({'mean': sum(yy) / len(yy), 'min': min(xx), 'max': max(xx), 'n': b - a, 'absmax': max(abs(y) for y in yy)})
    return out


def _nearest_int(q: Fraction) -> int:
    """Nearest integer; ties do not matter to the callers (deviation is 1/2 either way)."""
    return int((q + Fraction(1, 2)).__floor__())


def in_phase(f, ref, rtol, margin=Fraction(9, 8)) -> str:
    """'keep' | 'drop' | 'dontcare' | 'outside' for one frequency.

    'outside': |f/ref| * rtol >= 1/2 or |ref/f| * rtol >= 1/2, where neighbouring
    multiples (divisors) are closer together than the tolerance band of the
    target-relative reading and the notion degenerates.  ``margin`` is the factor by
    which a deviation must clear the tolerance before a verdict is given (the
    implementation works in floating point).
    """
    f, ref, rtol = frac(f), frac(ref), frac(rtol)
    if ref == 0 or rtol <= 0:
        raise ValueError('reference must be non-zero and rtol positive')
    if f == 0:
        return 'keep'  # 0 == 0 * ref exactly, under every reading
    q = f / ref
    if abs(q) * rtol >= Fraction(1, 2) or rtol >= abs(q) * Fraction(1, 2):
        return 'outside'
    verdicts = set()
    for scale_by_target in (False, True):
        # multiples: |q - n| compared with rtol (reference-relative) or rtol*|n| (target-relative)
        n = _nearest_int(q)
        dev = abs(q - n)
        tol = rtol * abs(n) if scale_by_target else rtol
        cands = [(dev, tol)] if (n != 0 or not scale_by_target) else []
        # divisors: ref/f = 1/q compared with integer m != 0
        r = 1 / q
        m = _nearest_int(r)
        if m != 0:
            if scale_by_target:
                # |f - ref/m| < rtol*|ref/m|  <=>  |q*m - 1| < rtol
                cands.append((abs(q * m - 1), rtol))
            else:
                cands.append((abs(r - m), rtol))
        v = 'drop'
        for d, t in cands:
            if d * margin < t:
                v = 'keep'
                break
        else:
            for d, t in cands:
                if d <= t * margin:
                    v = 'dontcare'
        verdicts.add(v)
    if verdicts == {'keep'}:
        return 'keep'
    if verdicts == {'drop'}:
        return 'drop'
    return 'dontcare'


def filter_in_phase(fs, ref, rtol):
    """Per element verdicts."""
    return [in_phase(f, ref, rtol) for f in fs]
