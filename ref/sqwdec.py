"""Independent, strict decoder of the Horace "sqw v4" binary container.

Written from the format description (DESIGN.md section 3.4); consumes bytes only and
shares no code with scippneutron.  Strict where the package's reader is lenient: every
extent is consumed byte-exactly and every count is checked.
"""
from __future__ import annotations

import struct

import numpy as np


class DecodeError(Exception):
    pass


_NUMERIC = {  # tag -> numpy dtype code (without byte order)
    3: 'f8', 4: 'f4', 5: 'i1', 6: 'u1', 9: 'i4', 10: 'u4', 11: 'i8', 12: 'u8',
}
T_LOGICAL, T_CHAR, T_CELL, T_STRUCT, T_SERIALIZABLE = 0, 1, 23, 24, 32


class Cursor:
    def __init__(self, buf: bytes, pos: int, end: int, bo: str):
        self.buf, self.pos, self.end, self.bo = buf, pos, end, bo  # bo: '<' or '>'

    def take(self, n: int) -> bytes:
        if n < 0 or self.pos + n > self.end:
            raise DecodeError(
                f'need {n} bytes at {self.pos} but extent ends at {self.end}'
            )
        b = self.buf[self.pos : self.pos + n]
        self.pos += n
        return b

    def u8(self):
        return self.take(1)[0]

    def u32(self):
        return struct.unpack(self.bo + 'I', self.take(4))[0]

    def u64(self):
        return struct.unpack(self.bo + 'Q', self.take(8))[0]

    def f64(self):
        return struct.unpack(self.bo + 'd', self.take(8))[0]

    def chars(self, n):
        b = self.take(n)
        try:
            return b.decode('utf-8')
        except UnicodeDecodeError as e:
            raise DecodeError(f'invalid utf-8 at {self.pos - n}: {e}') from None

    def lstr(self):
        return self.chars(self.u32())

    def array(self, code, count):
        dt = np.dtype(self.bo + code)
        b = self.take(count * dt.itemsize)
        return np.frombuffer(b, dtype=dt, count=count).astype(dt.newbyteorder('='))


def _vol(shape):
    v = 1
    for s in shape:
        v *= s
    return v


def deduce_byteorder(buf: bytes) -> str:
    """Documented rule: the first u32 is a short string length; the byte order that
    makes it the smaller number is the file's."""
    if len(buf) < 4:
        raise DecodeError('file shorter than 4 bytes')
    le = int.from_bytes(buf[:4], 'little')
    be = int.from_bytes(buf[:4], 'big')
    return '<' if le < be else '>'


def decode_object(c: Cursor, depth=0):
    """One typed object array.  Returns a dict {'ty', 'shape', 'data', 'tagged'}."""
    if depth > 32:
        raise DecodeError('nesting too deep')
    ty = c.u8()
    tagged = False
    if ty == T_SERIALIZABLE:
        tagged = True
        ty = c.u8()
        if ty == T_SERIALIZABLE:
            raise DecodeError('double serializable tag')
    rank = c.u8()
    shape = tuple(c.u32() for _ in range(rank))
    n = _vol(shape) if shape else 0
    if ty == T_CHAR:
        if not shape:
            data = ['']
        else:
            data = [c.chars(shape[0]) for _ in range(_vol(shape[1:]))]
    elif ty in _NUMERIC:
        data = c.array(_NUMERIC[ty], n)
    elif ty == T_LOGICAL:
        raw = c.take(n)
        for b in raw:
            if b not in (0, 1):
                raise DecodeError(f'logical byte {b} is neither 0 nor 1')
        data = [b == 1 for b in raw]
    elif ty == T_CELL:
        data = [decode_object(c, depth + 1) for _ in range(n)]
    elif ty == T_STRUCT:
        if not shape:
            data = []
        else:
            nf = c.u32()
            lens = [c.u32() for _ in range(nf)]
            names = [c.chars(k) for k in lens]
            if len(set(names)) != len(names):
                raise DecodeError(f'duplicate struct field names {names}')
            cell = decode_object(c, depth + 1)
            if cell['ty'] != T_CELL:
                raise DecodeError('struct field values are not a cell array')
            want = (nf, 1) if shape == (1,) else (nf, 1, *shape)
            if cell['shape'] != want:
                raise DecodeError(
                    f'struct array of shape {shape} with {nf} fields has field-value '
                    f'cell of shape {cell["shape"]}, expected {want}'
                )
            data = [
                dict(zip(names, cell['data'][i * nf : (i + 1) * nf], strict=True))
                for i in range(n)
            ]
    else:
        raise DecodeError(f'unknown type tag {ty} at {c.pos - 2 - 4 * rank}')
    return {'ty': ty, 'shape': shape, 'data': data, 'tagged': tagged}


def decode_pix(c: Cursor):
    rows = c.u32()
    npix = c.u64()
    if rows * npix * 4 > c.end - c.pos:
        raise DecodeError(
            f'pix block declares {rows}x{npix} f32 = {rows * npix * 4} bytes, only '
            f'{c.end - c.pos} available'
        )
    data = c.array('f4', rows * npix).reshape(npix, rows)
    return {'rows': rows, 'npix': npix, 'data': data}


def decode_dnd(c: Cursor):
    rank = c.u32()
    shape = tuple(c.u32() for _ in range(rank))
    n = _vol(shape)
    return {
        'shape': shape,
        'values': c.array('f8', n),
        'errors': c.array('f8', n),
        'counts': c.array('u8', n),
    }


def decode_file(buf: bytes, strict_tiling: bool = True) -> dict:
    """Decode a whole file.  Raises DecodeError on the first structural problem."""
    buf = bytes(buf)
    bo = deduce_byteorder(buf)
    c = Cursor(buf, 0, len(buf), bo)
    prog = c.lstr()
    version = c.f64()
    sqw_type = c.u32()
    n_dims = c.u32()
    header = {'prog_name': prog, 'prog_version': version, 'sqw_type': sqw_type, 'n_dims': n_dims}
    bat_size = c.u32()
    bat_begin = c.pos
    n_blocks = c.u32()
    entries = []
    for _ in range(n_blocks):
        btype = c.lstr()
        n1 = c.lstr()
        n2 = c.lstr()
        pos = c.u64()
        size = c.u32()
        lock = c.u32()
        entries.append({'type': btype, 'name': (n1, n2), 'position': pos, 'size': size, 'locked': lock})
    bat_end = c.pos
    if bat_size != bat_end - bat_begin:
        raise DecodeError(
            f'BAT size field is {bat_size} but the table occupies {bat_end - bat_begin} bytes'
        )
    out = {'byteorder': bo, 'header': header, 'bat': entries, 'bat_end': bat_end, 'blocks': {}, 'length': len(buf)}
    names = [e['name'] for e in entries]
    if len(set(names)) != len(names):
        raise DecodeError(f'block listed more than once in BAT: {names}')
    if strict_tiling:
        expect = bat_end
        for e in entries:
            if e['position'] != expect:
                raise DecodeError(
                    f'block {e["name"]} starts at {e["position"]}, expected {expect} '
                    '(extents must be contiguous in table order, starting after the BAT)'
                )
            expect += e['size']
        if expect != len(buf):
            raise DecodeError(
                f'extents end at {expect} but the file has {len(buf)} bytes'
            )
    for e in entries:
        lo, hi = e['position'], e['position'] + e['size']
        if hi > len(buf):
            raise DecodeError(f'block {e["name"]} extent [{lo},{hi}) exceeds file length {len(buf)}')
        bc = Cursor(buf, lo, hi, bo)
        try:
            if e['type'] == 'data_block':
                blk = decode_object(bc)
            elif e['type'] == 'pix_data_block':
                blk = decode_pix(bc)
            elif e['type'] == 'dnd_data_block':
                blk = decode_dnd(bc)
            else:
                raise DecodeError(f'unknown block type {e["type"]!r}')
        except DecodeError as err:
            raise DecodeError(f'block {e["name"]} ({e["type"]}): {err}') from None
        if bc.pos != hi:
            raise DecodeError(
                f'block {e["name"]} ({e["type"]}) decodes to {bc.pos - lo} bytes but its extent has {e["size"]}'
            )
        if e['locked'] not in (0, 1):
            raise DecodeError(f'block {e["name"]} lock field {e["locked"]}')
        out['blocks'][e['name']] = blk
    return out


# --- convenience accessors used by the harnesses -------------------------------------


def struct_of(obj) -> dict:
    """The single struct of a (1,)-shaped struct object array."""
    if obj['ty'] != T_STRUCT or obj['shape'] != (1,):
        raise DecodeError(f'expected a single struct, got ty={obj["ty"]} shape={obj["shape"]}')
    return obj['data'][0]


def scalar(obj):
    if obj['ty'] == T_CHAR:
        if len(obj['data']) != 1:
            raise DecodeError('not a single string')
        return obj['data'][0]
    if len(obj['data']) != 1:
        raise DecodeError(f'not a scalar: shape {obj["shape"]}')
    v = obj['data'][0]
    return v.item() if hasattr(v, 'item') else v


def ndarray(obj) -> np.ndarray:
    """Numeric array in numpy (row-major) axis order; file order is column-major."""
    return np.asarray(obj['data']).reshape(obj['shape'][::-1])
