"""The documented gravity-corrected scattering angles at 50 digits (C04).

Transcribed from the docstrings of ``scippneutron.conversion.beamline`` (module
docstring "Coordinate system", ``scattering_angles_with_gravity`` and
``scattering_angle_in_yz_plane``), NOT from the code:

    e_y = -g/|g|;  z_proj = b1 - (b1.e_y) e_y;  e_z = z_proj/|z_proj|;  e_x = e_y x e_z
    x_d = b2.e_x,  y_d = b2.e_y,  z_d = b2.e_z
    delta = |g| m_n^2 / (2 h^2) * L2^2 * lambda^2          (L2' ~ L2 = |b2|)
    y'_d = y_d + delta
    2theta = angle(b1, b2 + delta e_y)
    tan(phi) = y'_d / x_d
    b1 orthogonal to g:  tan(2theta) = sqrt(x_d^2 + y'_d^2) / z_d   ("equivalently")
    reflectometry:       tan(gamma) = |y'_d| / z_d

Everything in SI; callers convert with the exact factors of ``hp``.
No scippneutron import.
"""
from __future__ import annotations

from fractions import Fraction

import mpmath

from ref import hp

mpf = hp.mpf

ACCEL = {'m/s^2': Fraction(1), 'mm/s^2': Fraction(1, 1000), 'cm/s^2': Fraction(1, 100)}


def drop(gnorm, lam, L2):
    """delta = |g| m_n^2 lambda^2 L2^2 / (2 h^2), all SI."""
    return gnorm * hp.M_N**2 * lam**2 * L2**2 / (2 * hp.H**2)


def frame(b1, g):
    """Beam-aligned unit vectors (e_x, e_y, e_z) as documented."""
    gn = hp.norm(g)
    ey = hp.scale(g, -1 / gn)
    zp = hp.sub(b1, hp.scale(ey, hp.dot(b1, ey)))
    ez = hp.scale(zp, 1 / hp.norm(zp))
    ex = hp.cross(ey, ez)
    return ex, ey, ez


def angles(b1, b2, lam, g) -> dict:
    """Documented construction.  b1, b2 [m], lam [m], g [m/s^2] as mpf sequences / mpf."""
    ex, ey, ez = frame(b1, g)
    gn = hp.norm(g)
    xd, yd, zd = hp.dot(b2, ex), hp.dot(b2, ey), hp.dot(b2, ez)
    L2 = hp.norm(b2)
    d = drop(gn, lam, L2)
    yr = yd + d
    raised = hp.add(b2, hp.scale(ey, d))
    rho = mpmath.sqrt(xd * xd + yr * yr)
    return {
        'delta': d,
        'L2': L2,
        'x_d': xd,
        'y_d': yd,
        'z_d': zd,
        'y_raised': yr,
        'rho': rho,  # projection of the raised beam onto the x-y plane
        'two_theta': hp.angle_between(b1, raised),
        # NOT documented: the beam moved the other way (b2 - delta e_y); only used to label a mismatch
        'two_theta_lowered': hp.angle_between(b1, hp.sub(b2, hp.scale(ey, d))),
        'phi': mpmath.atan2(yr, xd),
        'two_theta_inplane': mpmath.atan2(rho, zd),
        'gamma': mpmath.atan2(abs(yr), zd),
        'two_theta_free': hp.angle_between(b1, b2),
        # signed deviation from perpendicularity in the length unit of b1 (here: m)
        'g_dot_b1_over_g': hp.dot(g, b1) / gn,
        'tilt': mpmath.asin(min(mpf(1), abs(hp.dot(g, b1)) / (gn * hp.norm(b1)))),
    }


def wrap_diff(a, b):
    """|a - b| modulo 2 pi, as mpf in [0, pi]."""
    d = (mpf(a) - mpf(b)) % (2 * hp.PI)
    return min(d, 2 * hp.PI - d)
