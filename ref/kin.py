"""Kernel table for the TOF / geometry / chopper kernels: 50-digit definitions in SI.

Built on ``ref/hp.py`` (definitions, exact unit factors).  Nothing here imports
scippneutron.  Every kernel entry says which argument carries which physical
quantity, in which unit the result is documented to come out, and how the result is
defined in SI.  ``reference()`` evaluates that definition on the *float values the
implementation received* (exactly promoted to mpf) and returns the expected number in
the output unit.

``io_in_range()`` / ``energy_transfer_io_in_range()`` are the explicit "physically
valid in single precision" predicates: the quantities *any* implementation has to
represent in the units used (inputs, the input powers the definition needs, for the
inelastic kernels t0, t - t0 and both energies, and the result) lie in 1e-30..1e30.
Constants folded by a particular implementation are deliberately *not* part of the
domain: keeping them representable is the implementation's job.
"""
from __future__ import annotations

from fractions import Fraction

import mpmath

from ref import hp

mpf = hp.mpf

# --- unit tables (exact factors to SI) ------------------------------------------------
TIME = dict(hp.TIME)
LENGTH = {**hp.LENGTH, 'pm': Fraction(1, 10**12)}
ENERGY_UNITS = ('ueV', 'meV', 'eV', 'J')
ENERGY_UNITS_WIDE = ('ueV', 'meV', 'eV', 'keV', 'J')
ENERGY_EV = {**{k: v for k, v in hp.ENERGY_EV.items() if v is not None}, 'keV': Fraction(1000)}  # eV per unit; J handled apart
ANGLE_UNITS = ('rad', 'deg')
# inverse length: factor to 1/m
INV_LENGTH = {
    '1/angstrom': Fraction(10**10), '1/nm': Fraction(10**9), '1/m': Fraction(1), '1/mm': Fraction(10**3), '1/km': Fraction(1, 10**3),
    '1/um': Fraction(10**6), '1/pm': Fraction(10**12), '1/cm': Fraction(10**2),
}
# acceleration: factor to m/s^2
ACCEL = {'m/s^2': Fraction(1), 'mm/s^2': Fraction(1, 10**3), 'km/s^2': Fraction(10**3), 'm/ms^2': Fraction(10**6), 'cm/s^2': Fraction(1, 10**2)}

F32_LO = mpf(10) ** -30
F32_HI = mpf(10) ** 30


def to_si(kind: str, value, unit: str):
    """Exact SI value (mpf) of the float ``value`` given in ``unit``."""
    if kind == 'time':
        return hp.F(value) * hp.F(TIME[unit])
    if kind == 'length':
        return hp.F(value) * hp.F(LENGTH[unit])
    if kind == 'energy':
        return hp.F(value) if unit == 'J' else hp.F(value) * hp.F(ENERGY_EV[unit]) * hp.EV
    if kind == 'angle':
        return hp.angle_rad(value, unit)
    if kind == 'inv_length':
        return hp.F(value) * hp.F(INV_LENGTH[unit])
    if kind == 'accel':
        return hp.F(value) * hp.F(ACCEL[unit])
    raise KeyError(kind)


def factor(kind: str, unit: str):
    """SI units per <unit> as mpf (so that value_si = value * factor)."""
    return to_si(kind, 1, unit) if kind != 'angle' else hp.angle_rad(1, unit)


def from_si(kind: str, value_si, unit: str):
    return value_si / factor(kind, unit)


def inv_unit(length_unit: str) -> str:
    return '1/' + length_unit


# --- definitions not in hp (all SI in / SI out) ---------------------------------------


def dspacing_from_tof(t, L, two_theta):
    return hp.H * t / (hp.M_N * L * 2 * mpmath.sin(two_theta / 2))


def dspacing_from_energy(E, two_theta):
    return hp.H / (mpmath.sqrt(8 * hp.M_N * E) * mpmath.sin(two_theta / 2))


def wavelength_from_Q(Q, two_theta):
    return 4 * hp.PI * mpmath.sin(two_theta / 2) / Q


def inverse_velocity(lam):
    return hp.M_N * lam / hp.H


def propagate_time(t, lam, dist):
    return t + dist * inverse_velocity(lam)


def flight_time(L, E):
    """Time a neutron of energy E needs for the distance L."""
    return L * mpmath.sqrt(hp.M_N / (2 * E))


def energy_transfer_direct(t, L1, L2, Ei):
    """(value or None when t <= t0, t - t0, t0, Ef)."""
    t0 = flight_time(L1, Ei)
    dt = t - t0
    if dt <= 0:
        return None, dt, t0, None
    Ef = hp.M_N * L2 * L2 / (2 * dt * dt)
    return Ei - Ef, dt, t0, Ef


def energy_transfer_indirect(t, L1, L2, Ef):
    t0 = flight_time(L2, Ef)
    dt = t - t0
    if dt <= 0:
        return None, dt, t0, None
    Ei = hp.M_N * L1 * L1 / (2 * dt * dt)
    return Ei - Ef, dt, t0, Ei


def gravity_drop(g_norm, L2, lam):
    """delta_y = |g| m_n^2 / (2 h^2) * L2^2 * lambda^2."""
    return g_norm * hp.M_N * hp.M_N / (2 * hp.H * hp.H) * L2 * L2 * lam * lam


def beam_aligned_unit_vectors(b1, g):
    ey = hp.scale(g, -1 / hp.norm(g))
    z = hp.sub(b1, hp.scale(ey, hp.dot(b1, ey)))
    ez = hp.scale(z, 1 / hp.norm(z))
    ex = hp.cross(ey, ez)
    return ex, ey, ez


def gravity_angles_orthogonal(b1, b2, lam, g):
    """Documented gravity-corrected angles for an incident beam orthogonal to gravity.

    Returns (two_theta, phi, gamma_yz) with
    tan(2theta) = sqrt(x^2 + y'^2)/z, tan(phi) = y'/x, tan(gamma) = |y'|/z.
    """
    ex, ey, ez = beam_aligned_unit_vectors(b1, g)
    x = hp.dot(b2, ex)
    y = hp.dot(b2, ey) + gravity_drop(hp.norm(g), hp.norm(b2), lam)
    z = hp.dot(b2, ez)
    two_theta = mpmath.atan2(mpmath.sqrt(x * x + y * y), z)
    phi = mpmath.atan2(y, x)
    gamma = mpmath.atan2(abs(y), z)
    return two_theta, phi, gamma


# --- kernel table ---------------------------------------------------------------------
# args: (name, kind); out: (kind, unit or rule); si: definition on SI mpf values;
# powers: exponent of each non-angle argument in the definition (for the domain predicate)

KERNELS = {
    'wavelength_from_tof': {
        'args': [('tof', 'time'), ('Ltotal', 'length')],
        'out': ('length', 'angstrom'),
        'si': lambda tof, Ltotal: hp.wavelength_from_tof(tof, Ltotal),
        'powers': {'tof': 1, 'Ltotal': -1},
    },
    'dspacing_from_tof': {
        'args': [('tof', 'time'), ('Ltotal', 'length'), ('two_theta', 'angle')],
        'out': ('length', 'angstrom'),
        'si': lambda tof, Ltotal, two_theta: dspacing_from_tof(tof, Ltotal, two_theta),
        'powers': {'tof': 1, 'Ltotal': -1},
    },
    'energy_from_tof': {
        'args': [('tof', 'time'), ('Ltotal', 'length')],
        'out': ('energy', 'meV'),
        'si': lambda tof, Ltotal: hp.energy_from_tof(tof, Ltotal),
        'powers': {'tof': -2, 'Ltotal': 2},
    },
    'energy_from_wavelength': {
        'args': [('wavelength', 'length')],
        'out': ('energy', 'meV'),
        'si': lambda wavelength: hp.energy_from_wavelength(wavelength),
        'powers': {'wavelength': -2},
    },
    'wavelength_from_energy': {
        'args': [('energy', 'energy')],
        'out': ('length', 'angstrom'),
        'si': lambda energy: hp.wavelength_from_energy(energy),
        'powers': {'energy': -1},
    },
    'Q_from_wavelength': {
        'args': [('wavelength', 'length'), ('two_theta', 'angle')],
        'out': ('inv_length', 'inverse_of:wavelength'),
        'si': lambda wavelength, two_theta: hp.Q_from_wavelength(wavelength, two_theta),
        'powers': {'wavelength': -1},
    },
    'wavelength_from_Q': {
        'args': [('Q', 'inv_length'), ('two_theta', 'angle')],
        'out': ('length', 'angstrom'),
        'si': lambda Q, two_theta: wavelength_from_Q(Q, two_theta),
        'powers': {'Q': -1},
    },
    'dspacing_from_wavelength': {
        'args': [('wavelength', 'length'), ('two_theta', 'angle')],
        'out': ('length', 'angstrom'),
        'si': lambda wavelength, two_theta: hp.dspacing_from_wavelength(wavelength, two_theta),
        'powers': {'wavelength': 1},
    },
    'dspacing_from_energy': {
        'args': [('energy', 'energy'), ('two_theta', 'angle')],
        'out': ('length', 'angstrom'),
        'si': lambda energy, two_theta: dspacing_from_energy(energy, two_theta),
        'powers': {'energy': -1},
    },
}


def out_unit(kernel: str, units: dict) -> tuple[str, str]:
    """(kind, unit name) of the documented output for the given input units."""
    kind, unit = KERNELS[kernel]['out']
    if unit.startswith('inverse_of:'):
        unit = inv_unit(units[unit.split(':', 1)[1]])
    return kind, unit


def reference(kernel: str, values: dict, units: dict):
    """Expected result (mpf, in the documented output unit) for float ``values``."""
    spec = KERNELS[kernel]
    si_args = {name: to_si(kind, values[name], units[name]) for name, kind in spec['args']}
    res_si = spec['si'](**si_args)
    okind, ounit = out_unit(kernel, units)
    return from_si(okind, res_si, ounit)


# --- inelastic kernels: reference in the energy unit of the fixed energy, with conditioning ----


def energy_transfer_reference(mode: str, values: dict, units: dict):
    """Reference for energy_transfer_{direct,indirect}_from_tof on float ``values``.

    mode 'direct': values has tof, L1, L2, incident_energy; 'indirect': final_energy.
    Returns dict(value=mpf in the unit of the fixed energy or None when t <= t0,
    margin=|t - t0| / (t + t0), amp=conditioning amplifier so that the absolute
    error of a backward-stable evaluation is <= eps * amp (in the fixed-energy unit)).
    """
    ename = 'incident_energy' if mode == 'direct' else 'final_energy'
    t = to_si('time', values['tof'], units['tof'])
    L1 = to_si('length', values['L1'], units['L1'])
    L2 = to_si('length', values['L2'], units['L2'])
    E = to_si('energy', values[ename], units[ename])
    fn = energy_transfer_direct if mode == 'direct' else energy_transfer_indirect
    val, dt, t0, Evar = fn(t, L1, L2, E)
    margin = abs(dt) / (t + t0)
    ef = factor('energy', units[ename])
    if val is None:
        return {'value': None, 'margin': margin, 'amp': None, 't0': t0}
    amp = (abs(E) + abs(Evar) * (1 + 2 / margin)) / ef
    return {'value': val / ef, 'margin': margin, 'amp': amp, 't0': t0}


# --- single-precision domains: only what *any* implementation has to represent ----------------


def io_in_range(kernel: str, values: dict, units: dict, lo=F32_LO, hi=F32_HI) -> bool:
    """Inputs, the input powers the definition needs and the result lie in [lo, hi]."""
    spec = KERNELS[kernel]
    for name, kind in spec['args']:
        v = abs(hp.F(values[name]))
        if not (lo <= v <= hi):
            return False
        if kind != 'angle':
            p = v ** abs(spec['powers'][name])
            if not (lo <= p <= hi):
                return False
    return bool(lo <= abs(reference(kernel, values, units)) <= hi)


def energy_transfer_io_in_range(mode: str, values: dict, units: dict, lo=F32_LO, hi=F32_HI) -> bool:
    """Inputs, squared lengths, t0, t - t0 and its square, both energies and the result lie in [lo, hi]."""
    ename = 'incident_energy' if mode == 'direct' else 'final_energy'
    ref = energy_transfer_reference(mode, values, units)
    ft = factor('time', units['tof'])
    t = hp.F(values['tof'])
    t0 = ref['t0'] / ft
    dt = t - t0
    qs = [t, hp.F(values[ename]), hp.F(values['L1']), hp.F(values['L2']), hp.F(values['L1']) ** 2, hp.F(values['L2']) ** 2, t0]
    if dt != 0:
        qs += [dt, dt * dt]
    if ref['value'] is not None:
        fixed = hp.F(values[ename])
        other = fixed - ref['value'] if mode == 'direct' else ref['value'] + fixed  # the energy computed from the flight time
        qs += [ref['value'], other]
    return all(lo <= abs(q) <= hi for q in qs if q != 0)
