"""The three bundled nuclear-data tables, read with the ``csv`` module.

No scippneutron import, no scipp: plain text in, Python floats / ints / None out.  The
model states what a lookup *by exact name* must return:

* ``scattering_parameters.csv``: no header; 17 columns ``name, (value, std) x 8`` in the
  order b_c re, b_c im, b_i re, b_i im [fm], sigma_coh, sigma_inc, sigma_scatt,
  sigma_abs [barn]; a blank value means "not tabulated" (None), a blank std means "no
  uncertainty" (variance None).
* ``atomic_weights.csv``: comment line, header line, then ``element, Z, weight, std``
  [Da]; weight blank where no standard atomic weight exists.
* ``atomic_masses.csv``: comment line, header line, then ``isotope, mass, std`` [Da].

A *name* is ``[mass number]symbol``.  An atom lookup for a bare symbol answers from the
weights table only (no mass); for ``<A><symbol>`` it needs the exact row of the masses
table and answers z / weight from the symbol's row of the weights table.  Every other
string is "unknown" (``None``).
"""
from __future__ import annotations

import csv
import os
import re

SCATTERING_FIELDS = (
    ('coherent_scattering_length_re', 'fm'),
    ('coherent_scattering_length_im', 'fm'),
    ('incoherent_scattering_length_re', 'fm'),
    ('incoherent_scattering_length_im', 'fm'),
    ('coherent_scattering_cross_section', 'barn'),
    ('incoherent_scattering_cross_section', 'barn'),
    ('total_scattering_cross_section', 'barn'),
    ('absorption_cross_section', 'barn'),
)
NAME = re.compile(r'\A([0-9]+)?([A-Za-z]+)\Z')


def quantity(value_text: str, std_text: str, unit: str):
    """(value, variance | None, unit) or None for a blank field."""
    if value_text == '':
        return None
    value = float(value_text)
    variance = None if std_text == '' else float(std_text) * float(std_text)
    return (value, variance, unit)


def split_name(name: str):
    """('12', 'C') / (None, 'C') / None if the string is not of the form [digits]letters."""
    m = NAME.match(name)
    if m is None:
        return None
    return m[1], m[2]


class Tables:
    def __init__(self, directory: str):
        self.directory = directory
        self.scattering = {}  # name -> list of 16 texts
        self.weights = {}  # element -> (z_text, weight_text, std_text)
        self.masses = {}  # isotope -> (mass_text, std_text)
        self.header_words = []
        self.duplicates = []
        with open(os.path.join(directory, 'scattering_parameters.csv'), newline='') as f:
            for row in csv.reader(f):
                if len(row) != 17:
                    raise ValueError(f'scattering_parameters.csv: row with {len(row)} columns: {row!r}')
                if row[0] in self.scattering:
                    self.duplicates.append(row[0])
                    continue  # "the row with that name": first one wins, recorded
                self.scattering[row[0]] = row[1:]
        for fname, ncol, target in (('atomic_weights.csv', 4, self.weights), ('atomic_masses.csv', 3, self.masses)):
            with open(os.path.join(directory, fname), newline='') as f:
                rows = list(csv.reader(f))
            comment, header, body = rows[0], rows[1], rows[2:]
            if not comment[0].startswith('#'):
                raise ValueError(f'{fname}: first line is not a comment')
            self.header_words.extend([','.join(comment), *comment, *header])
            for row in body:
                if len(row) != ncol:
                    raise ValueError(f'{fname}: row with {len(row)} columns: {row!r}')
                if row[0] in target:
                    self.duplicates.append(row[0])
                    continue
                target[row[0]] = tuple(row[1:])

    # -- what a lookup by exact name must return -------------------------------------

    def expected_scattering(self, name: str):
        """dict field -> (value, variance, unit) | None;  None if the name is unknown."""
        row = self.scattering.get(name)
        if row is None:
            return None
        return {
            field: quantity(row[2 * i], row[2 * i + 1], unit)
            for i, (field, unit) in enumerate(SCATTERING_FIELDS)
        }

    def expected_atom(self, name: str):
        """dict(z, weight, mass) with weight / mass = (value, variance, 'Da') | None;  None if unknown."""
        parts = split_name(name)
        if parts is None:
            return None
        mass_number, symbol = parts
        wrow = self.weights.get(symbol)
        if wrow is None:
            return None
        z = int(wrow[0])
        weight = quantity(wrow[1], wrow[2], 'Da')
        if mass_number is None:
            return {'z': z, 'weight': weight, 'mass': None}
        mrow = self.masses.get(name)
        if mrow is None:
            return None
        return {'z': z, 'weight': weight, 'mass': quantity(mrow[0], mrow[1], 'Da')}

    def all_names(self):
        """Every name of the three tables, table order, without repetition."""
        seen = []
        known = set()
        for n in [*self.scattering, *self.weights, *self.masses]:
            if n not in known:
                known.add(n)
                seen.append(n)
        return seen


def load(directory: str) -> Tables:
    return Tables(directory)
