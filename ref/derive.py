"""Reference model of the documented conversion graphs: derivability + formulas.

Hand-transcribed from the coordinate-transformations user guide and the module
docstrings (name <- inputs), per (origin, scatter, energy mode).  Imports nothing from
scippneutron.  Formulas are plain numpy float64 in fixed units:
lengths m, times us, wavelength angstrom, energies meV, angles rad, Q 1/angstrom.
"""
from __future__ import annotations

import numpy as np

import scipp as _sc
import scipp.constants  # noqa: F401

# the constants scipp exposes (the property says so); nothing else is taken from scipp
H = float(_sc.constants.h.value)
M_N = float(_sc.constants.m_n.value)
MEV = float(_sc.scalar(1.0, unit='meV').to(unit='J').value)  # J per meV

GEOMETRY = ('position', 'source_position', 'sample_position', 'incident_beam', 'scattered_beam', 'L1', 'L2', 'Ltotal', 'two_theta', 'incident_energy', 'final_energy')

BEAMLINE_SCATTER = {
    'incident_beam': ('source_position', 'sample_position'),
    'scattered_beam': ('position', 'sample_position'),
    'L1': ('incident_beam',),
    'L2': ('scattered_beam',),
    'two_theta': ('incident_beam', 'scattered_beam'),
    'Ltotal': ('L1', 'L2'),
}
BEAMLINE_NO_SCATTER = {'Ltotal': ('source_position', 'position')}

_QHKL = {
    'Q': ('wavelength', 'two_theta'),
    ('Qx', 'Qy', 'Qz'): ('wavelength', 'incident_beam', 'scattered_beam'),
    'Q_vec': ('Qx', 'Qy', 'Qz'),
    'hkl_vec': ('Q_vec', 'ub_matrix', 'sample_rotation'),
    ('h', 'k', 'l'): ('hkl_vec',),
    'ub_matrix': ('u_matrix', 'b_matrix'),
}
ELASTIC = {
    'tof': {
        'wavelength': ('tof', 'Ltotal'),
        'energy': ('tof', 'Ltotal'),
        'dspacing': ('tof', 'Ltotal', 'two_theta'),
        'time_at_sample': ('pulse_time', 'tof', 'L2', 'wavelength'),
        **_QHKL,
    },
    'wavelength': {
        'energy': ('wavelength',),
        'dspacing': ('wavelength', 'two_theta'),
        **_QHKL,
    },
    'energy': {
        'wavelength': ('energy',),
        'dspacing': ('energy', 'two_theta'),
    },
    'Q': {
        'wavelength': ('Q', 'two_theta'),
    },
}
INELASTIC = {
    'direct_inelastic': {'energy_transfer': ('tof', 'L1', 'L2', 'incident_energy')},
    'indirect_inelastic': {'energy_transfer': ('tof', 'L1', 'L2', 'final_energy')},
}
KINEMATIC_TOF = {'wavelength': ('tof', 'Ltotal'), 'energy': ('tof', 'Ltotal')}


def _produces(key, name):
    return key == name if isinstance(key, str) else name in key


def rules(origin: str, target: str, scatter: bool, mode: str) -> dict:
    """The documented graph for these arguments: key -> input names."""
    if not scatter:
        return {**BEAMLINE_NO_SCATTER, **KINEMATIC_TOF}
    if mode != 'elastic':
        return {**BEAMLINE_SCATTER, **INELASTIC[mode]}
    if any(_produces(k, target) for k in BEAMLINE_SCATTER):
        return dict(BEAMLINE_SCATTER)
    return {**BEAMLINE_SCATTER, **ELASTIC[origin]}


def energy_mode(origin, target, present):
    """'elastic' | 'direct_inelastic' | 'indirect_inelastic' | None (= ambiguous -> RuntimeError)."""
    inel = [n for n in ('incident_energy', 'final_energy') if n in present]
    if target == 'energy_transfer':
        if len(inel) != 1:
            return None
        return 'direct_inelastic' if inel[0] == 'incident_energy' else 'indirect_inelastic'
    if 'energy' in (origin, target) and inel:
        return None
    return 'elastic'


def rule_for(graph, name):
    for k, v in graph.items():
        if _produces(k, name):
            return k, v
    return None, None


def derivable(graph, name, present, _stack=()):
    if name in present:
        return True
    if name in _stack:
        return False
    _, inputs = rule_for(graph, name)
    if inputs is None:
        return False
    return all(derivable(graph, i, present, (*_stack, name)) for i in inputs)


# formulas ---------------------------------------------------------------------------------


def _norm(v):
    return np.sqrt(np.sum(np.asarray(v) ** 2, axis=-1))


def _angle(a, b):
    a = np.asarray(a, dtype=float)
    b = np.asarray(b, dtype=float)
    cr = np.cross(a, b)
    return np.arctan2(_norm(cr), np.sum(a * b, axis=-1))


_C_LAM = H / M_N * 1e10 * 1e-6  # angstrom * m / us   (lambda[A] = C * t[us] / L[m])
_C_E = M_N / 2 / MEV * 1e12  # meV * us^2 / m^2   (E[meV] = C * L^2/t^2)


def f_incident_beam(source_position, sample_position):
    return sample_position - source_position


def f_scattered_beam(position, sample_position):
    return position - sample_position


def f_L1(incident_beam):
    return _norm(incident_beam)


def f_L2(scattered_beam):
    return _norm(scattered_beam)


def f_two_theta(incident_beam, scattered_beam):
    return _angle(incident_beam, scattered_beam)


def f_Ltotal_scatter(L1, L2):
    return L1 + L2


def f_Ltotal_no_scatter(source_position, position):
    return _norm(position - source_position)


def f_wavelength_tof(tof, Ltotal):
    return _C_LAM * tof / Ltotal


def f_energy_tof(tof, Ltotal):
    return _C_E * Ltotal**2 / tof**2


def f_dspacing_tof(tof, Ltotal, two_theta):
    return f_wavelength_tof(tof, Ltotal) / (2 * np.sin(two_theta / 2))


def f_energy_wavelength(wavelength):
    return H**2 / (2 * M_N * (wavelength * 1e-10) ** 2) / MEV


def f_wavelength_energy(energy):
    return H / np.sqrt(2 * M_N * energy * MEV) * 1e10


def f_dspacing_wavelength(wavelength, two_theta):
    return wavelength / (2 * np.sin(two_theta / 2))


def f_dspacing_energy(energy, two_theta):
    return f_wavelength_energy(energy) / (2 * np.sin(two_theta / 2))


def f_Q(wavelength, two_theta):
    return 4 * np.pi * np.sin(two_theta / 2) / wavelength


def f_wavelength_Q(Q, two_theta):
    with np.errstate(divide='ignore'):
        return 4 * np.pi * np.sin(two_theta / 2) / Q


def f_Qxyz(wavelength, incident_beam, scattered_beam):
    ei = incident_beam / _norm(incident_beam)[..., None]
    ef = scattered_beam / _norm(scattered_beam)[..., None]
    return (2 * np.pi / np.asarray(wavelength)[..., None]) * (ei - ef)


def f_energy_transfer_direct(tof, L1, L2, incident_energy):
    t0 = np.sqrt(_C_E * L1**2 / incident_energy)
    dt = tof - t0
    with np.errstate(divide='ignore', invalid='ignore'):
        return np.where(dt <= 0, np.nan, incident_energy - _C_E * L2**2 / dt**2)


def f_energy_transfer_indirect(tof, L1, L2, final_energy):
    t0 = np.sqrt(_C_E * L2**2 / final_energy)
    dt = tof - t0
    with np.errstate(divide='ignore', invalid='ignore'):
        return np.where(dt <= 0, np.nan, _C_E * L1**2 / dt**2 - final_energy)


def f_time_at_sample(pulse_time, tof, L2, wavelength):
    """Offset from pulse_time in us."""
    return tof - L2 * wavelength / _C_LAM


def f_hkl(Q_vec, ub_matrix, sample_rotation):
    m = 2 * np.pi * (sample_rotation @ ub_matrix)
    return np.einsum('ij,...j->...i', np.linalg.inv(m), Q_vec)
