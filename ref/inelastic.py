"""Inelastic time-of-flight kinematics at 50 digits, from the flight itself (SI in, SI out).

A neutron flies L1 with kinetic energy Ei, then L2 with kinetic energy Ef:

    v(E)  = sqrt(2 E / m_n)
    t     = L1 / v(Ei) + L2 / v(Ef)

Direct geometry knows Ei (fixed leg = L1), indirect geometry knows Ef (fixed leg = L2).
The energy transfer is reconstructed from the arrival time by removing the flight time
of the fixed leg and turning the remaining time over the other leg into an energy:

    direct:    t0 = L1 / v(Ei);   dE = Ei - m_n/2 (L2 / (t - t0))^2
    indirect:  t0 = L2 / v(Ef);   dE = m_n/2 (L1 / (t - t0))^2 - Ef

and is undefined (``None``) for t <= t0.  No code shared with scippneutron.
"""
from __future__ import annotations

import mpmath
import scipp.constants  # noqa: F401 - hp reads sc.constants

from . import hp

mpf = hp.mpf

DIRECT = 'direct'
INDIRECT = 'indirect'


def speed(E):
    return mpmath.sqrt(2 * E / hp.M_N)


def flight_time(L, E):
    return L / speed(E)


def arrival_time(Ei, Ef, L1, L2):
    return flight_time(L1, Ei) + flight_time(L2, Ef)


def t0(mode, L1, L2, E_fixed):
    """Flight time of the leg whose energy is known."""
    if mode == DIRECT:
        return flight_time(L1, E_fixed)
    if mode == INDIRECT:
        return flight_time(L2, E_fixed)
    raise ValueError(mode)


def other_leg_energy(mode, t, L1, L2, E_fixed):
    """Kinetic energy on the leg whose energy is *not* known; None if t <= t0."""
    dt = t - t0(mode, L1, L2, E_fixed)
    if dt <= 0:
        return None
    L = L2 if mode == DIRECT else L1
    return hp.M_N * (L / dt) ** 2 / 2


def transfer(mode, t, L1, L2, E_fixed):
    """Energy transfer Ei - Ef in joule; None where the arrival time is unphysical."""
    E_other = other_leg_energy(mode, t, L1, L2, E_fixed)
    if E_other is None:
        return None
    return E_fixed - E_other if mode == DIRECT else E_other - E_fixed
